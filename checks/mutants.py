"""Sensitivity mutants: realistic ways of breaking each claimed property while the
code still compiles and the pinned test-suite still passes.  ``bin/sensitivity``
applies each to a scratch copy of the sources (never to /repo) and expects the
property's check to report a violation within the quick budget.

Each mutant: (name, relative file under src/, old text, new text, expected
signature prefix or None).
"""

LOCK = 'pharmpy/internals/fs/lock.py'

C15 = [
    ('sh-release-never-notifies', LOCK,
     "                    self._condition.notify_all()\n            finally:\n                self._condition.release()\n\n    @contextmanager\n    def _lock_ex",
     "                    pass\n            finally:\n                self._condition.release()\n\n    @contextmanager\n    def _lock_ex",
     'C15/lost-grant'),
    ('sh-release-notifies-only-when-empty (original defect F1)', LOCK,
     "                    self._condition.notify_all()\n            finally:",
     "                    if not self._acquired_by:\n                        self._condition.notify_all()\n            finally:",
     'C15/lost-grant'),
    ('notify-one-instead-of-all', LOCK,
     "                    self._condition.notify_all()\n            finally:",
     "                    self._condition.notify()\n            finally:",
     'C15/lost-grant'),
    ('ex-wait-if-instead-of-while', LOCK,
     "                    while self._acquired_by - this_thread_count:\n                        self._condition.wait()",
     "                    if self._acquired_by - this_thread_count:\n                        self._condition.wait()",
     None),
    ('recursion-check-after-wait (original defect F7)', LOCK,
     "                if not reentrant and this_thread_count[thread_id]:",
     "                if False and this_thread_count[thread_id]:",
     'C15/recursive-hang'),
    ('process-upgrade-branch-removed', LOCK,
     "                if not is_held or (is_held_shared and not shared and not is_windows):",
     "                if not is_held:",
     'C15/kernel-lock-missing'),
    ('process-downgrade-removed', LOCK,
     "                elif not is_held_exclusively and not shared and not is_windows:",
     "                elif False:",
     None),
    ('unlock-when-exclusive-holders-gone', LOCK,
     "                if not is_held:\n                    # NOTE: We only release the lock once we have exhausted all",
     "                if not is_held_exclusively:\n                    # NOTE: We only release the lock once we have exhausted all",
     'C15/kernel-lock-missing'),
    ('fd-pool-closes-on-every-deref', LOCK,
     "                else:\n                    # NOTE: Otherwise we count one ref less\n                    self._refs[key] = (obj, refcount - 1)",
     "                else:\n                    # NOTE: Otherwise we count one ref less\n                    self._refs[key] = (obj, refcount - 1)\n                    if self._destructor is not None:\n                        self._destructor(obj)",
     None),
    ('pool-entry-without-its-lock', LOCK,
     "        with self._lock:\n            entry = self._refs.get(key)",
     "        if True:\n            entry = self._refs.get(key)",
     None),
    ('shared-requests-take-LOCK_EX', LOCK,
     "        operation = fcntl.LOCK_SH if shared else fcntl.LOCK_EX",
     "        operation = fcntl.LOCK_EX",
     None),
    ('sh-recursive-check-removed', LOCK,
     "                if not reentrant and self._acquired_by[thread_id]:\n                    raise RecursiveDeadlockError()\n                self._acquired_by[thread_id] += 1",
     "                self._acquired_by[thread_id] += 1",
     None),
    ('process-recursive-check-removed', LOCK,
     "                if not reentrant and (\n                    self._shared_by[thread_id] or self._exclusively_held_by[thread_id]\n                ):\n                    raise RecursiveDeadlockError()",
     "                pass",
     None),
    ('lock-file-opened-read-only', LOCK,
     "os.open(normalized_path, os.O_RDWR)",
     "os.open(normalized_path, os.O_RDONLY)",
     None),
    ('sh-ignores-nonblocking', LOCK,
     "        thread_id = get_ident()\n        if self._condition.acquire(blocking=blocking):\n            try:\n                if not reentrant and self._acquired_by[thread_id]:",
     "        thread_id = get_ident()\n        if self._condition.acquire(blocking=True):\n            try:\n                if not reentrant and self._acquired_by[thread_id]:",
     'C15/nb-parked'),
    ('path-not-normalised', LOCK,
     "    key = os.path.normpath(path)",
     "    key = path",
     None),
    ('ex-does-not-hold-through-body', LOCK,
     "                acquired = True\n                self._acquired_by[thread_id] += 1\n\n                yield\n\n            finally:\n                if acquired:",
     "                acquired = True\n                self._acquired_by[thread_id] += 1\n\n                self._condition.release()\n                try:\n                    yield\n                finally:\n                    self._condition.acquire()\n\n            finally:\n                if acquired:",
     'C15/exclusion'),
    ('nonblocking-process-lock-blocks', LOCK,
     "                fcntl.lockf(fd, operation | fcntl.LOCK_NB)",
     "                fcntl.lockf(fd, operation)",
     'C15/nb-parked'),
    ('downgrade-by-unlock-then-relock', LOCK,
     "                    _process_level_lock(self._fd, shared=True, blocking=True)",
     "                    _process_level_unlock(self._fd)\n                    _process_level_lock(self._fd, shared=True, blocking=True)",
     'C15/kernel-lock-missing'),
    ('refcount-leak-on-exception', LOCK,
     "        try:\n            yield obj\n\n        finally:\n            with self._lock:\n                (_, refcount) = self._refs[key]",
     "        yield obj\n\n        if True:\n            with self._lock:\n                (_, refcount) = self._refs[key]",
     None),
]

C15.append(
    ('pool-entry-deleted-after-destructor', LOCK,
     "                    del self._refs[key]\n                    if self._destructor is not None:\n                        self._destructor(obj)",
     "                    if self._destructor is not None:\n                        self._destructor(obj)\n                    del self._refs[key]",
     None))
C15.append(
    ('both-recursive-checks-removed', [
        (LOCK,
         "                if not reentrant and self._acquired_by[thread_id]:\n                    raise RecursiveDeadlockError()\n                self._acquired_by[thread_id] += 1",
         "                self._acquired_by[thread_id] += 1"),
        (LOCK,
         "                if not reentrant and (\n                    self._shared_by[thread_id] or self._exclusively_held_by[thread_id]\n                ):\n                    raise RecursiveDeadlockError()",
         "                pass"),
    ], 'C15/recursive-granted'))

EQUIVALENT = {
    'log-written-without-lock': 'each message reaches the file as one write(2) on an O_APPEND descriptor '
                                '(TextIOWrapper/BufferedWriter pass a large string through in one piece), so '
                                'appends do not interleave even without the lock',
    'model-file-written-before-dataset': 'PENDING hides the key until the whole transaction commits, so the '
                                         'order of model file and dataset inside it is unobservable',
    'sh-recursive-check-removed': 'the process-level lock repeats the check, so path_lock still raises',
    'process-recursive-check-removed': 'the thread-level lock raises first, path_lock behaviour unchanged',
}


def _norm(m):
    if len(m) == 5:
        name, rel, old, new, expect = m
        return (name, [(rel, old, new)], expect)
    return m


WF = 'pharmpy/workflows/workflow.py'
EXE = 'pharmpy/workflows/execute.py'
OPT = 'pharmpy/workflows/dispatchers/local_dask/optimize.py'

C17 = [
    ('predecessor-keys-sorted', WF,
     "            input_list.extend(ids[t] for t in self._g.predecessors(task))",
     "            input_list.extend(sorted(ids[t] for t in self._g.predecessors(task)))", None),
    ('predecessor-keys-reversed', WF,
     "            input_list.extend(ids[t] for t in self._g.predecessors(task))",
     "            input_list.extend(reversed([ids[t] for t in self._g.predecessors(task)]))", None),
    ('static-inputs-after-predecessors', WF,
     "            input_list = list(task.task_input)\n            input_list.extend(ids[t] for t in self._g.predecessors(task))",
     "            input_list = [ids[t] for t in self._g.predecessors(task)]\n            input_list.extend(task.task_input)", None),
    ('keys-without-uuid', WF,
     "            ids[task] = f'{task.name}-{uuid.uuid4()}'",
     "            ids[task] = f'{task.name}'", None),
    ('dfs-tree-from-first-source-only', WF,
     "        for task in nx.dfs_tree(self._g):",
     "        for task in nx.dfs_tree(self._g, self.input_tasks[0]):", None),
    ('replace-task-on-copy', WF,
     "        nx.relabel_nodes(self._g, mapping, copy=False)",
     "        nx.relabel_nodes(self._g, mapping, copy=True)", None),
    ('nn-insertion-zips-reversed', WF,
     "            for inp, outp in zip(input_tasks, output_tasks):",
     "            for inp, outp in zip(input_tasks, reversed(output_tasks)):", None),
    ('one-to-n-connects-first-input-only', WF,
     "            for inp in input_tasks:\n                self._g.add_edge(output_tasks[0], inp)",
     "            for inp in input_tasks[:1]:\n                self._g.add_edge(output_tasks[0], inp)", None),
    ('n-to-one-connects-last-output-only', WF,
     "            for outp in output_tasks:\n                self._g.add_edge(outp, input_tasks[0])",
     "            for outp in output_tasks[-1:]:\n                self._g.add_edge(outp, input_tasks[0])", None),
    ('context-appended-not-prepended', WF,
     "            new_task = task.replace(task_input=(context, *task.task_input))",
     "            new_task = task.replace(task_input=(*task.task_input, context))", None),
    ('execute-drops-non-model-static-inputs', EXE,
     "            else:\n                new_inp.append(inp)\n",
     "            elif not isinstance(inp, (tuple, float)):\n                new_inp.append(inp)\n", None),
    ('builder-plus-loses-other-edges', WF,
     "        wb_new = WorkflowBuilder()\n        wb_new._g = nx.compose(self._g, other._g)",
     "        wb_new = WorkflowBuilder()\n        wb_new._g = self._g.copy()\n        wb_new._g.add_nodes_from(other._g.nodes)", None),
    ('multi-sink-takes-first', WF,
     "        if len(self.output_tasks) == 1:\n            ids[self.output_tasks[0]] = 'results'",
     "        if len(self.output_tasks) >= 1:\n            ids[self.output_tasks[0]] = 'results'", None),
    ('scatter-flattens-nested-list', OPT,
     "        return list(map(lambda c: _scatter_computation(Future, client, c), computation))",
     "        return list(map(lambda c: _scatter_value(Future, client, c), computation[:1]))", None),
    ('scatter-tuple-drops-last-arg', OPT,
     "                *map(lambda c: _scatter_computation(Future, client, c), computation[1:]),",
     "                *map(lambda c: _scatter_computation(Future, client, c), computation[1:3]),", None),
    ('nm-insertion-accepted-silently', WF,
     "            raise ValueError('Having N:M connections between workflows is currently not supported')",
     "            pass", None),
    ('add-task-single-predecessor-ignored', WF,
     "            if not isinstance(predecessors, list):\n                self._g.add_edge(predecessors, task)",
     "            if not isinstance(predecessors, list):\n                pass", None),
]

DB = 'pharmpy/workflows/model_database/local_directory.py'
CTX = 'pharmpy/workflows/contexts/local_directory.py'
CTXB = 'pharmpy/workflows/contexts/baseclass.py'

C16 = [
    ('no-pending-marker-created', DB,
     "            try:\n                path.touch(exist_ok=False)\n            except FileExistsError:\n                # TODO: Finish pending transaction from journal if possible\n                raise PendingTransactionError()\n\n            yield LocalModelDirectoryDatabaseTransaction(self, obj)\n\n            # NOTE: Commit transaction (only if no exception was raised)\n            path.unlink()",
     "            yield LocalModelDirectoryDatabaseTransaction(self, obj)", None),
    ('snapshot-ignores-pending', DB,
     "            if path.exists():\n                # TODO: Finish pending transaction from journal if possible\n                raise PendingTransactionError()\n\n            yield LocalModelDirectoryDatabaseSnapshot(self, obj)",
     "            yield LocalModelDirectoryDatabaseSnapshot(self, obj)", None),
    ('commit-in-finally', DB,
     "            yield LocalModelDirectoryDatabaseTransaction(self, obj)\n\n            # NOTE: Commit transaction (only if no exception was raised)\n            path.unlink()",
     "            try:\n                yield LocalModelDirectoryDatabaseTransaction(self, obj)\n            finally:\n                path.unlink()", None),
    ('write-lock-taken-shared', DB,
     "        path.touch(exist_ok=True)\n        return path_lock(str(path), shared=False)",
     "        path.touch(exist_ok=True)\n        return path_lock(str(path), shared=True)", None),
    ('transaction-without-lock', DB,
     "        with self._write_lock():\n            # NOTE: Mark state as pending",
     "        if True:\n            # NOTE: Mark state as pending", None),
    ('index-entry-created-first-again', DB,
     "            data_path = path_absolute(datasets_path / dataset_filename)\n            datainfo = model.datainfo.replace(path=data_path)",
     "            (h_dir / dataset_filename).touch()\n            data_path = path_absolute(datasets_path / dataset_filename)\n            datainfo = model.datainfo.replace(path=data_path)", None),
    ('index-validation-removed (original defect F2)', [
        (DB, "                except (OSError, ValueError):", "                except ZeroDivisionError:"),
        (DB, "            data_path = path_absolute(datasets_path / dataset_filename)\n            datainfo = model.datainfo.replace(path=data_path)",
         "            (h_dir / dataset_filename).touch()\n            data_path = path_absolute(datasets_path / dataset_filename)\n            datainfo = model.datainfo.replace(path=data_path)"),
    ], 'C16/store-after-crash-fails'),
    ('annotations-rewritten-in-place (original defect F4)', CTX,
     "            tmp_path = path.with_name(path.name + '.tmp')\n            with open(tmp_path, 'w') as fh:\n                fh.writelines(lines)\n            os.replace(tmp_path, path)",
     "            with open(path, 'w') as fh:\n                fh.writelines(lines)", 'C16/committed-unretrievable/KeyError/annotations-lost'),
    ('log-read-with-na-detection (original defect F5)', CTX,
     "            df = pd.read_csv(log_path, dtype=str, keep_default_na=False, na_filter=False)",
     "            df = pd.read_csv(log_path)", 'C16/log-message-not-verbatim'),
    ('log-quotes-not-doubled', CTX,
     "                    return '\"' + message.replace('\"', '\"\"') + '\"'",
     "                    return '\"' + message + '\"'", None),
    ('log-sorted-by-time-on-read', CTX,
     "        count = df['path'].str.count('/')",
     "        df = df.sort_values('time', kind='stable').reset_index(drop=True)\n        count = df['path'].str.count('/')", None),
    ('annotation-appended-not-replaced', CTX,
     "                    if a[0] == name:\n                        lines.append(f'{name} {annotation}\\n')\n                        found = True",
     "                    if a[0] == name:\n                        lines.append(line)", None),
    ('store-key-rebinds-existing-name', CTX,
     "        if not from_path.exists():\n            absolute_to_path",
     "        if True:\n            absolute_to_path", None),
    ('retrieve-does-not-reattach-annotation', CTXB,
     "        model = model.replace(name=name, description=annotation)",
     "        model = model.replace(name=name)", None),
    ('model-file-written-before-dataset', DB,
     "        if model_file_path.is_file():\n            return model\n",
     "        if model_file_path.is_file():\n            return model\n        model_path.mkdir(exist_ok=True)\n        write_model(model, model_file_path, force=True)\n", None),
    ('results-stored-outside-transaction', CTXB,
     "        with db.transaction(model) as txn:\n            txn.store_model_entry()\n            key = txn.key",
     "        with db.transaction(model) as txn:\n            txn.store_model()\n            key = txn.key\n        with db.transaction(model) as txn:\n            txn.store_modelfit_results()", None),
    ('annotation-lock-not-taken', CTX,
     "        path = self._annotations_path\n        with self._write_lock(path):\n            with open(path, 'r') as fh:\n                lines = []",
     "        path = self._annotations_path\n        if True:\n            with open(path, 'r') as fh:\n                lines = []", None),
    ('database-touches-lock-file-again (original defect F10)', [
        (DB, "        path = self.path / FILE_LOCK\n        return path_lock(str(path), shared=True)",
         "        path = self.path / FILE_LOCK\n        path.touch(exist_ok=True)\n        return path_lock(str(path), shared=True)"),
        (DB, "        path = self.path / FILE_LOCK\n        return path_lock(str(path), shared=False)",
         "        path = self.path / FILE_LOCK\n        path.touch(exist_ok=True)\n        return path_lock(str(path), shared=False)"),
    ], 'C16/lock-exclusion'),
    ('stored-dataset-rounded', DB,
     "            model = write_csv(model, path=data_path, force=True)",
     "            model = write_csv(model.replace(dataset=model.dataset.round(0)), path=data_path, force=True)",
     'C16/entry-not-equivalent-after-fault-free-store'),
    ('log-written-without-lock', CTX,
     "        with self._write_lock(log_path):\n            with open(log_path, 'a') as fh:",
     "        if True:\n            with open(log_path, 'a') as fh:", None),
]

CALL = 'pharmpy/workflows/dispatchers/local_dask/call.py'
RUN = 'pharmpy/workflows/dispatchers/local_dask/run.py'
C17 += [
    ('cancelled-run-not-caught', RUN,
     "                        except dask.distributed.client.FutureCancelledError:\n                            res = None",
     "                        except ZeroDivisionError:\n                            res = None", None),
    ('context-test-uses-startswith', WF,
     "        if parameters and parameters[0] == 'context':",
     "        if parameters and parameters[0].startswith('context'):", None),
    ('workflow-name-dropped-by-builder-copy', WF,
     "            self._g = workflow._g.copy()\n            self.name = workflow.name",
     "            self._g = workflow._g.copy()\n            self.name = name", None),
    ('call-workflow-without-context', CALL,
     "    wb = WorkflowBuilder(wf)\n    insert_context(wb, ctx)\n    wf = Workflow(wb)",
     "    wb = WorkflowBuilder(wf)\n    wf = Workflow(wb)", None),
    ('call-workflow-keeps-results-key', CALL,
     "    dsk[unique_name] = dsk.pop('results')\n    dsk_optimized = optimize_task_graph_for_dask_distributed(client, dsk)\n    futures = client.get(dsk_optimized, unique_name, sync=False)",
     "    dsk_optimized = optimize_task_graph_for_dask_distributed(client, dsk)\n    futures = client.get(dsk_optimized, 'results', sync=False)", None),
]

C17 += [
    ('tool-results-not-stored-in-context', EXE,
     "        context.store_results(res)\n",
     "        pass\n", 'C17/results-object'),
    ('results-of-the-workflow-replaced-by-stored-copy', EXE,
     "    if isinstance(res, Results) and not isinstance(res, ModelfitResults):\n        context.store_results(res)",
     "    if isinstance(res, Results) and not isinstance(res, ModelfitResults):\n        context.store_results(res)\n        res = None", 'C17/results-object'),
    ('dispatcher-end-message-before-get', RUN,
     "                        try:\n                            res = client.get(dsk_optimized, 'results')",
     "                        context.log_info(\"End dispatch\")\n                        try:\n                            res = client.get(dsk_optimized, 'results')",
     'C17/context-log'),
    ('context-log-message-quotes-not-doubled', 'pharmpy/workflows/contexts/local_directory.py',
     """return '"' + message.replace('"', '""') + '"'""",
     """return '"' + message + '"'""", 'C17/context-log'),
]

ALL = {'C15': [_norm(m) for m in C15 if m[0] not in EQUIVALENT],
       'C16': [_norm(m) for m in C16 if m[0] not in EQUIVALENT],
       'C17': [_norm(m) for m in C17]}
