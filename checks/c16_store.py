"""C16 - model database and run context: atomic and faithful, even across crashes.

System under simulation: pharmpy's real LocalModelDirectoryDatabase,
LocalDirectoryContext (+ base classes), ModelHash, write_csv, write_model, NONMEM
code generation and parsing, DataInfo / ModelfitResults JSON, on a simulated disk
(sim/simfs.py).  Two modes (DESIGN.md 5.2):

* journal mode  - a tape-generated workload runs once fault-free while every
  mutating file-system operation is journalled; then the directory is rebuilt
  for crash points k (every prefix of the journal, plus torn variants of the
  write in flight) and reopened with fresh objects;
* in-situ mode - several virtual processes/threads run the workload concurrently
  under the seeded scheduler with OSError injection and process death at
  file-system operations (see c16_insitu.py).
"""

from __future__ import annotations

import hashlib
import os
import re
import shutil
import warnings

from sim import simfs
from sim.tape import Tape

PROP = 'C16'
_P = {}
POOL = []
PREPARE_VIOLATIONS = []
NPOOL = 10       # POOL[:NPOOL]: the entries workloads draw from; POOL[NPOOL:]: fillers (scale mode)
GOLD = {}        # key -> dict(model, hash, results_json)
_MEMO = {}
_MEMO_ON = [True]
_MEMO_STATS = {'hit': 0, 'miss': 0}

MESSAGES = [
    'plain message',
    'with, comma',
    'with "double quotes" inside',
    "single 'quotes'",
    'two\nlines',
    'windows\r\nline ending',
    'unicode åäö αβ ✓',
    '',
    'NA',
    'null',
    'nan',
    '123',
    '  leading and trailing blanks  ',
    'a,b,"c",\n"d"',
    'carriage\rreturn',
    'ends with backslash \\',
    '# starts with hash',
    '"',
    '""',
    "tab\tseparated\tvalues",
    'x' * 9000,          # > 8 KiB: several raw writes
]

DESCRIPTIONS = [          # valid $PROBLEM titles (no leading blank)
    'base model',
    'two "quoted", with comma',
    'trailing blanks  ',
    'unicode åäö',
    'semi;colon and $ sign',
    'desc',
]
ANNOTATIONS = DESCRIPTIONS + ['  leading blanks', '', 'a b  c']

# operation kinds
STORES = ('store', 'store_input', 'store_final')      # context-level stores of a model entry
BINDERS = STORES + ('dummy_run',)                      # operations that bind a name (+ annotation)
KEY_COMMITTERS = BINDERS + ('db_store_model', 'db_store_entry')         # operations whose acknowledgement commits the key
TXN_KINDS = KEY_COMMITTERS + ('metadata', 'localfile', 'nmfiles')   # run database transactions
READS = ('retrieve', 'retrieve_log', 'retrieve_name', 'db2_retrieve')
NM_SUFFIXES = ('.lst', '.ext', '.phi', '.cov')
NM_OK = (3, 4)       # pool entries whose key carries no results in any pool entry (see prepare)
DUMMY = {}           # pool idx -> results JSON the dummy runner produces for this entry
NMRES = {}           # pool idx -> JSON of the results parsed from the stored NONMEM output files
COMMON_OPTIONS = {'esttool': 'dummy', 'seed': 1234, 'text': 'with "quotes", comma åäö', 'nested': {'a': [1, 2.5, None]}}
CTX_METADATA = [
    {'tool_name': 'modelsearch', 'tool_options': {'search_space': 'ABSORPTION([FO,ZO]);PERIPHERALS(0..2)',
                                                  'rank_type': 'bic', 'cutoff': None, 'n': 3, 'x': 1.5},
     'pharmpy_version': '1.0', 'unicode': 'åäö "q"'},
    {'tool_name': 'iivsearch', 'tool_options': {'algorithm': 'top_down_exhaustive', 'keep': ['CL', 'VC']},
     'stats': {'start_time': '2026-01-01 12:00:00', 'end_time': None}},
]


def op_results_json(op):
    """Results JSON an operation attaches to its key (None: it attaches none)."""
    k = op['kind']
    if op.get('model') is None:
        return None
    e = POOL[op['model']]
    if k in STORES or k == 'db_store_entry':
        return e['results_json'] if e['has_results'] else None
    if k == 'dummy_run':
        return DUMMY[e['idx']]
    if k == 'nmfiles':
        return NMRES[e['idx']]
    return None


def op_may_commit_without_results(op):
    """The key may become visible without results through this operation (the dummy runner
    first stores the bare model in a transaction of its own)."""
    k = op['kind']
    return k in ('db_store_model', 'dummy_run') or (
        (k in STORES or k == 'db_store_entry') and not POOL[op['model']]['has_results'])


_BASE = [None]
_REAL_GETPID = os.getpid
_REAL_KILL = os.kill
FAKE_PID_BASE = 4_200_000          # above pid_max: never a real process
_VPID = {'current': None,          # callable -> virtual pid of the caller, or None (real pid)
         'alive': set()}


def _sim_getpid():
    f = _VPID['current']
    v = f() if f is not None else None
    return _REAL_GETPID() if v is None else FAKE_PID_BASE + v


def _sim_kill(pid, sig):
    """os.kill for virtual pids: signal 0 probes whether the virtual process is alive."""
    if isinstance(pid, int) and pid >= FAKE_PID_BASE and _VPID['current'] is not None:
        import errno
        if (pid - FAKE_PID_BASE) in _VPID['alive']:
            if sig == 0:
                return None
            raise PermissionError(errno.EPERM, 'Operation not permitted')
        raise ProcessLookupError(errno.ESRCH, 'No such process')
    return _REAL_KILL(pid, sig)


class virtual_process:
    """`with virtual_process(pid, alive)`: code inside sees os.getpid() == FAKE_PID_BASE + pid
    and can probe the virtual processes in `alive` with os.kill(pid, 0) (everything else: as the
    real calls).  `pid` may be a callable (in-situ mode: the pid of the calling vthread)."""

    def __init__(self, pid, alive):
        self.pid = pid
        self.alive = alive

    def __enter__(self):
        self.saved = (_VPID['current'], _VPID['alive'], os.getpid, os.kill)
        _VPID['current'] = self.pid if callable(self.pid) else (lambda: self.pid)
        _VPID['alive'] = self.alive
        os.getpid, os.kill = _sim_getpid, _sim_kill
        return self

    def __exit__(self, *a):
        _VPID['current'], _VPID['alive'], os.getpid, os.kill = self.saved


_PRIV_CODE = {}


def private_modules(path_lock=None):
    """Fresh instances of the two modules whose module-level state belongs to ONE operating
    system process (workflows.model_database.local_directory, workflows.contexts.
    local_directory): a virtual process, and every restart, gets its own - as a real process
    would - so that state kept in module globals is not shared between "processes".
    Returns (LocalDirectoryContext class, database module, context module)."""
    import importlib.util
    import types
    out = []
    for name in ('pharmpy.workflows.model_database.local_directory',
                 'pharmpy.workflows.contexts.local_directory'):
        code = _PRIV_CODE.get(name)
        if code is None:
            spec = importlib.util.find_spec(name)
            with simfs._orig['open'](spec.origin, 'rb') as fh:
                code = (compile(fh.read(), spec.origin, 'exec'), spec.origin)
            _PRIV_CODE[name] = code
        mod = types.ModuleType(name)
        mod.__file__ = code[1]
        mod.__package__ = name.rpartition('.')[0]
        exec(code[0], mod.__dict__)
        out.append(mod)
    dbm, cxm = out
    cxm.LocalModelDirectoryDatabase = dbm.LocalModelDirectoryDatabase
    if path_lock is not None:
        dbm.path_lock = path_lock
        cxm.path_lock = path_lock
    return cxm.LocalDirectoryContext, dbm, cxm


def scratch_root():
    """Per-process scratch directory below one per-invocation directory that the
    parent removes at the end (fixed-width names: path lengths never vary)."""
    if _BASE[0] is None:
        _BASE[0] = f'/dev/shm/verif-c16-{_REAL_GETPID():07d}'
    d = os.path.join(_BASE[0], f'w{_REAL_GETPID():07d}')
    os.makedirs(d, exist_ok=True)
    return d


def cleanup():
    if _BASE[0] is not None:
        shutil.rmtree(_BASE[0], ignore_errors=True)


def remove_stale_scratch():
    """Scratch directories of earlier invocations that were killed (time-out) before they
    could clean up: remove those whose owning process no longer exists."""
    import glob
    for d in glob.glob('/dev/shm/verif-c16-*') + glob.glob('/dev/shm/verif-c12-*') + \
            glob.glob('/dev/shm/verif-mut-*') + glob.glob('/dev/shm/verif-seed-*'):
        try:
            pid = int(d.rsplit('-', 1)[1])
        except ValueError:
            continue
        if pid != _REAL_GETPID() and not os.path.exists(f'/proc/{pid}'):
            shutil.rmtree(d, ignore_errors=True)


# --------------------------------------------------------------------------
# pool + golden values (built once in the parent, before forking)
# --------------------------------------------------------------------------
def prepare():
    if _P:
        return
    warnings.filterwarnings('ignore')
    remove_stale_scratch()
    import pharmpy.model as pmodel
    import pharmpy.workflows.contexts.local_directory as ctxmod
    import pharmpy.workflows.model_database.local_directory as dbmod
    from pharmpy.modeling import (
        add_peripheral_compartment,
        load_example_model,
        set_initial_estimates,
        set_additive_error_model,
    )
    from pharmpy.tools.external.dummy.run import create_dummy_modelfit_results
    from pharmpy.workflows import LocalDirectoryContext, ModelEntry
    from pharmpy.workflows.hashing import ModelHash
    from pharmpy.workflows.model_database.baseclass import PendingTransactionError

    import pharmpy.workflows.hashing as _hashing
    from sim import linetrace
    _P['hashing_path'] = _hashing.__file__
    _P['hashing_codes'] = linetrace.code_objects_of(_hashing)
    _P.update(pmodel=pmodel, ctxmod=ctxmod, dbmod=dbmod, Ctx=LocalDirectoryContext,
              ModelEntry=ModelEntry, ModelHash=ModelHash, Pending=PendingTransactionError)
    base = load_example_model('pheno')
    ds = base.dataset
    dsA = ds[ds['ID'] <= 3].reset_index(drop=True)
    dsB = ds[ds['ID'] <= 30].reset_index(drop=True)      # csv > 8 KiB: two raw writes
    mA = base.replace(dataset=dsA)
    mB = base.replace(dataset=dsB)
    variants = [
        ('base', mA, 0, False),
        ('peri_2.0', add_peripheral_compartment(mA), 1, False),
        ('addi', set_additive_error_model(mA), 2, False),
        ('inits.v2-a', set_initial_estimates(mA, {'POP_CL': 0.006}), 3, False),
        ('big', mB, 4, False),
        ('bigaddi', set_additive_error_model(mB), 5, False),
        ('fitted', set_initial_estimates(mA, {'POP_VC': 1.2}), 0, True),
        ('bigfit', set_initial_estimates(mB, {'POP_VC': 1.3}), 3, True),
        # twins: the same content under another name and description (same key); the
        # dummy results are seeded by the name, so 'fitted2' carries other results than 'fitted'
        ('base2', mA, 4, False),
        ('fitted2', set_initial_estimates(mA, {'POP_VC': 1.2}), 1, True),
    ]
    for idx, (name, model, d, with_res) in enumerate(variants):
        model = model.replace(name=name, description=DESCRIPTIONS[d])
        res = create_dummy_modelfit_results(model) if with_res else None
        if res is not None and name in ('bigfit', 'fitted2'):
            # a results log with more than ten entries (warnings and errors, in this order)
            import dataclasses
            import datetime as _dtmod
            import pharmpy.workflows.log as plog
            from pharmpy.workflows.log import Log, LogEntry
            # fixed time stamps: the pool must be identical in every process (determinism)
            entries = tuple(
                LogEntry(category='WARNING' if n_ % 3 else 'ERROR',
                         message=f'warning {n_}' if n_ % 3 else f'error {n_}, "quoted"',
                         time=_dtmod.datetime(2026, 1, 1, 8, 0, n_))
                for n_ in range(13))
            del plog
            res = dataclasses.replace(res, log=Log(entries))
        me = ModelEntry.create(model, modelfit_results=res)
        key = str(ModelHash(model))
        POOL.append({'idx': idx, 'name': name, 'model': model, 'me': me, 'key': key,
                     'desc': DESCRIPTIONS[d], 'has_results': with_res, 'results_json': None,
                     'dataset': 'A' if idx in (0, 1, 2, 3, 6, 8, 9) else 'B'})
    # fillers: twelve more models, each with its own small dataset (dataset numbers >= 10)
    for j in range(12):
        dsj = ds[ds['ID'] == 10 + j].reset_index(drop=True)
        model = base.replace(dataset=dsj, name=f'fill{j}', description=f'filler {j}')
        POOL.append({'idx': len(POOL), 'name': f'fill{j}', 'model': model,
                     'me': ModelEntry.create(model), 'key': str(ModelHash(model)),
                     'desc': f'filler {j}', 'has_results': False, 'results_json': None,
                     'dataset': f'F{j}'})
    # install the parse memo (a pure function of the bytes the parser reads)
    import pharmpy.workflows.contexts.baseclass as ctxbase
    ctxbase.datetime = _DatetimeProxy
    _P['orig_parse'] = pmodel.Model.parse_model
    pmodel.Model.parse_model = staticmethod(_memo_parse)
    # golden retrieves: store + retrieve once, fault-free, single-threaded, private dir
    gdir = os.path.join(scratch_root(), 'golden')
    shutil.rmtree(gdir, ignore_errors=True)
    os.makedirs(gdir)
    for e in POOL:
        ctx = quiet(LocalDirectoryContext(f'g{e["idx"]}', ref=gdir))
        ctx.store_model_entry(e['me'])
        me = ctx.model_database.retrieve_model_entry(ModelHash(e['key']))
        g = GOLD.setdefault(e['key'], {})
        g['model'] = me.model
        g['hash'] = str(ModelHash(me.model))
        # what survives verbatim on the pinned tree is compared with what was STORED, not with a
        # retrieve made by the code under test: the dataset always, the whole model for every
        # pool entry except the three structural variants (whose re-parsed representation
        # differs - C02's business)
        orig = ModelHash(e['model'])
        verbatim_model = e['name'] not in ('peri_2.0', 'addi', 'bigaddi')
        if str(orig.dataset_hash) != str(ModelHash(me.model).dataset_hash) or (
                verbatim_model and (g['hash'] != str(orig) or not (me.model == e['model']))):
            PREPARE_VIOLATIONS.append({
                'signature': f'{PROP}/entry-not-equivalent-after-fault-free-store',
                'detail': f'{e["name"]}: after one fault-free store_model_entry + retrieve the '
                          f'{"dataset" if str(orig.dataset_hash) != str(ModelHash(me.model).dataset_hash) else "model"} '
                          f'differs from what was stored'})
        if e['has_results']:
            # results are compared with what was STORED (the round trip through results.json is
            # exact on the pinned tree), not with a golden retrieve
            e['results_json'] = e['me'].modelfit_results.to_json()
            if me.modelfit_results is None or me.modelfit_results.to_json() != e['results_json']:
                # not a harness problem: a verdict, reported by every run of this invocation
                PREPARE_VIOLATIONS.append({
                    'signature': f'{PROP}/results-not-verbatim-after-fault-free-store',
                    'detail': f'the results of {e["name"]} (log with {len(e["me"].modelfit_results.log)} '
                              f'entries) differ after one fault-free store_model_entry + retrieve'})
    for e in POOL:
        _DS_HASH[e['idx']] = str(ModelHash(e['model']).dataset_hash)
    # what the real dummy runner produces for each entry (seeded by the model name)
    for e in POOL[:NPOOL]:
        DUMMY[e['idx']] = create_dummy_modelfit_results(e['model']).to_json()
    # results parsed from NONMEM output files stored next to the model (model.lst, .ext, ...)
    import pharmpy as _pharmpy
    _P['nm_dir'] = os.path.join(os.path.dirname(_pharmpy.__file__), 'internals', 'example_models')
    for idx in NM_OK:
        e = POOL[idx]
        assert not any(x['has_results'] for x in POOL if x['key'] == e['key'])
        ctx = quiet(LocalDirectoryContext(f'n{idx}', ref=gdir))
        ctx.store_model_entry(e['me'])
        do_nmfiles(ctx.model_database, e)
        r1 = ctx.model_database.retrieve_modelfit_results(ModelHash(e['key']))
        r2 = ctx.retrieve_model_entry(e['name']).modelfit_results
        if r1 is None or r2 is None or r1.to_json() != r2.to_json():
            PREPARE_VIOLATIONS.append({
                'signature': f'{PROP}/results-not-retrievable-after-fault-free-store',
                'detail': f'{e["name"]}: NONMEM output files stored next to the model with '
                          f'store_local_file(new_filename=model.lst, ...) give '
                          f'{"no results" if r1 is None or r2 is None else "different results per accessor"}'})
            NMRES[idx] = None
            continue
        NMRES[idx] = r1.to_json()
    shutil.rmtree(gdir, ignore_errors=True)
    _MEMO.clear()
    keys = [e['key'] for e in POOL[:8]]
    assert len(set(keys)) == len(keys), 'the first eight pool entries must have distinct content'
    assert POOL[8]['key'] == POOL[0]['key'] and POOL[9]['key'] == POOL[6]['key'], 'twins share their key'
    assert POOL[9]['results_json'] != POOL[6]['results_json'], 'twins carry different results'


class SimClock:
    """The only clock the context reads (contexts.baseclass.datetime).  Advances by
    tape-drawn deltas; with `jumps` it sometimes steps backwards (clock jump fault)."""

    def __init__(self, tape=None, jumps=False, stats=None):
        import datetime as _dt
        self._dt = _dt
        self.t = _dt.datetime(2026, 1, 1, 12, 0, 0)
        self.tape = tape
        self.jumps = jumps
        self.stats = stats if stats is not None else {}
        self.elapsed = 0.0

    def now(self, tz=None):
        d = 1 + (self.tape.draw(5000, 'clock.delta') if self.tape is not None else 0)
        if self.jumps and self.tape is not None and self.tape.chance(1, 6, 'clock.jump'):
            d = -self.tape.draw(3600_000, 'clock.back') - 1
            self.stats['fault.clock_jump_back'] = self.stats.get('fault.clock_jump_back', 0) + 1
        self.t = self.t + self._dt.timedelta(milliseconds=d)
        self.elapsed += abs(d) / 1000.0
        return self.t


_CLOCK = [SimClock()]


class _DatetimeProxy:
    @staticmethod
    def now(tz=None):
        return _CLOCK[0].now(tz)


def quiet(ctx):
    ctx.broadcast_message = lambda *a, **k: None      # terminal broadcast: stub
    return ctx


def _memo_parse(path, missing_data_token=None):
    """Model.parse_model, memoised by the bytes it reads.  Under the scheduler a parse is
    ONE yield point followed by an atomic read of all its files - with or without the
    memo, hit or miss - so that the schedule never depends on the state of the memo."""
    fs = simfs._ACTIVE[0]
    if fs is not None and fs.k is not None:
        fs._before_read('parse', str(path))
        fs.quiet_reads += 1
        try:
            return _memo_parse_inner(path, missing_data_token)
        finally:
            fs.quiet_reads -= 1
    return _memo_parse_inner(path, missing_data_token)


def _memo_parse_inner(path, missing_data_token=None):
    orig = _P['orig_parse']
    if not _MEMO_ON[0]:
        model = orig(path, missing_data_token)
        try:
            from pharmpy.modeling import load_dataset
            if model.dataset is None and model.datainfo is not None and model.datainfo.path is not None:
                model = load_dataset(model)
        except Exception:
            pass
        return model
    path = str(path)
    try:
        with simfs._orig['open'](path, 'rb') as fh:
            code = fh.read()
    except OSError:
        return orig(path, missing_data_token)
    h = hashlib.sha256(code)
    m = re.search(rb'\$DATA\s+(\S+)', code)
    if m:
        dpath = m.group(1).decode('latin-1').strip('"\'')
        if not os.path.isabs(dpath):
            dpath = os.path.join(os.path.dirname(path), dpath)
        for p in (dpath, os.path.splitext(dpath)[0] + '.datainfo'):
            try:
                with simfs._orig['open'](p, 'rb') as fh:
                    h.update(b'|' + fh.read())
            except OSError:
                h.update(b'|MISSING')
    h.update(path.encode())
    key = h.digest()
    hit = _MEMO.get(key)
    if hit is not None:
        _MEMO_STATS['hit'] += 1
        return hit
    _MEMO_STATS['miss'] += 1
    model = orig(path, missing_data_token)
    # force the lazily loaded parts now, while the files still have these bytes
    try:
        from pharmpy.modeling import load_dataset
        if model.dataset is None and model.datainfo is not None and model.datainfo.path is not None:
            model = load_dataset(model)
    except Exception:
        return model        # not cacheable: let callers see the real behaviour
    if len(_MEMO) > 400:
        _MEMO.clear()
    _MEMO[key] = model
    return model


# --------------------------------------------------------------------------
# run classes
# --------------------------------------------------------------------------
def config_for(i, tier='quick'):
    only = os.environ.get('VERIF_C16_ONLY')      # developer aid: every run in one mode
    if only == 'keyrace':
        return {'mode': 'keyrace', 'memo': True, 'clock_jumps': False}
    if only == 'dbfresh':
        return {'mode': 'insitu', 'memo': True, 'clock_jumps': False, 'fault': 'none', 'focus': 7}
    if only == 'excpoint':
        return {'mode': 'excpoint', 'memo': True, 'clock_jumps': False,
                'crashpoints': 'all' if tier == 'thorough' else 'sample'}
    memo = (i % 11) != 10
    jumps = (i % 3) == 1
    if i % 40 in (30, 10):
        c = {'mode': 'keyrace', 'memo': True, 'clock_jumps': False}
    elif i % 40 == 20:
        c = {'mode': 'scale', 'memo': memo, 'clock_jumps': False}
    elif i % 8 == 0:
        c = {'mode': 'journal', 'memo': memo, 'clock_jumps': jumps}
        c['crashpoints'] = 'all' if tier == 'thorough' else 'sample'
    elif i % 8 == 4:
        c = {'mode': 'excpoint', 'memo': memo, 'clock_jumps': False}
        c['crashpoints'] = 'all' if tier == 'thorough' else 'sample'
    else:
        fault = ('none', 'oserror', 'death', 'mix', 'none', 'death')[(i % 8 + i // 8) % 6]
        c = {'mode': 'insitu', 'memo': memo, 'clock_jumps': jumps, 'fault': fault}
        if i % 16 == 3:
            c['line_hashing'] = True
            c['fault'] = 'none'
    return c


def scenarios(tier):
    return [{'mode': 'journal', 'memo': True, 'clock_jumps': False, 'crashpoints': 'all',
             'scenario': 'pending-later-txn'}]


def class_name(cfg):
    if cfg['mode'] == 'insitu':
        return f"mode=insitu,fault={cfg.get('fault')},memo={int(cfg.get('memo', True))}" + \
            (',line_hashing' if cfg.get('line_hashing') else '')
    if cfg['mode'] in ('scale', 'keyrace'):
        return 'mode=' + cfg['mode']
    return f"mode={cfg['mode']},crashpoints={cfg.get('crashpoints')},memo={int(cfg.get('memo', True))}"


# --------------------------------------------------------------------------
# workload
# --------------------------------------------------------------------------
def gen_workload(tape):
    """<= 3 pool models (biased to share a dataset), <= 5 operations."""
    first = tape.draw(NPOOL, 'pool.first')
    chosen = [first]
    same = [e['idx'] for e in POOL[:NPOOL] if e['dataset'] == POOL[first]['dataset'] and e['idx'] != first]
    other = [e['idx'] for e in POOL[:NPOOL] if e['idx'] != first]
    nmod = 1 + tape.draw(3, 'nmodels')
    twins = [e['idx'] for e in POOL[:NPOOL] if e['key'] == POOL[first]['key'] and e['idx'] != first]
    if twins and nmod > 1 and tape.draw(2, 'pool.twin'):
        chosen.append(twins[0])
    while len(chosen) < nmod:
        src = same if (tape.draw(3, 'pool.share') != 0 and same) else other
        src = [x for x in src if x not in chosen]
        if not src:
            break
        chosen.append(src[tape.draw(len(src), 'pool.pick')])
    nops = 1 + tape.draw(5, 'nops')
    ops = []
    for _ in range(nops):
        kind = tape.weighted([(10, 'store'), (2, 'store_input'), (1, 'store_final'), (4, 'log'),
                              (2, 'annotate'), (2, 'metadata'), (2, 'localfile'), (3, 'retrieve'),
                              (1, 'db_store_model'), (1, 'retrieve_log'), (2, 'sub_store'),
                              (1, 'sub_log'), (2, 'dummy_run'), (2, 'nmfiles'), (1, 'ctx_metadata'),
                              (1, 'db_store_entry')], 'op')
        m = chosen[tape.draw(len(chosen), 'op.model')]
        if kind == 'nmfiles':
            ok = [x for x in chosen if x in NM_OK]
            if not ok:
                kind = 'localfile'
            else:
                m = ok[tape.draw(len(ok), 'op.nm')]
        if kind == 'ctx_metadata':
            ops.append({'kind': kind, 'model': None, 'v': tape.draw(len(CTX_METADATA), 'meta.v'),
                        'sub': bool(tape.draw(2, 'meta.sub'))})
            continue
        if kind in ('log', 'sub_log'):
            sev = ('info', 'warning', 'error')[tape.draw(3, 'log.sev')]
            msg = MESSAGES[tape.draw(len(MESSAGES), 'log.msg')]
            with_model = tape.draw(3, 'log.model') == 2
            ops.append({'kind': 'log', 'sev': sev, 'msg': msg, 'model': m if with_model else None,
                        'sub': kind == 'sub_log'})
        elif kind == 'annotate':
            ops.append({'kind': 'annotate', 'model': m,
                        'text': ANNOTATIONS[tape.draw(len(ANNOTATIONS), 'annot.text')]})
        elif kind == 'sub_store':
            ops.append({'kind': 'store', 'model': m, 'sub': True})
        else:
            ops.append({'kind': kind, 'model': m})
    return {'models': chosen, 'ops': ops}


def fmt_op(op):
    k = op['kind']
    if k == 'log':
        m = f",model={POOL[op['model']]['name']}" if op['model'] is not None else ''
        return f"{'sub1.' if op.get('sub') else ''}log_{op['sev']}({op['msg'][:30]!r}" \
               f"{'...' if len(op['msg']) > 30 else ''}{m})"
    if k == 'annotate':
        return f"store_annotation({POOL[op['model']]['name']!r}, {op['text']!r})"
    if k == 'retrieve_log':
        return 'retrieve_log()'
    if k == 'retrieve_name':
        return f"retrieve_model_entry({POOL[op['model']]['name']!r})"
    if k == 'ctx_metadata':
        return f"{'sub1.' if op.get('sub') else ''}store_metadata(#{op['v']})"
    if k in ('db2_store', 'db2_retrieve'):
        return f"db2.{'store_model_entry' if k == 'db2_store' else 'retrieve_model_entry'}({POOL[op['model']]['name']})"
    return f"{'sub1.' if op.get('sub') else ''}{k}({POOL[op['model']]['name']})"


class Ref:
    """Reference model: what has been acknowledged so far."""

    def __init__(self):
        self.keys_acked = {}        # key -> {'results': bool}
        self.names = {}             # name -> key          (acked bindings)
        self.annot = {}             # name -> text         (acked)
        self.log = []               # (severity, path, message) acked, in order of acknowledgement
        self.log_times = []         # (invoke seq, return seq) per acked message (in-situ mode)
        self.db_only = set()        # keys stored through the database only
        self.files = {}             # key -> set of ('metadata'|'localfile') acknowledged
        self.res_writes = {}        # key -> [(results json, invoke seq, return seq)] acknowledged
        self.annot_writes = {}      # name -> [(text, invoke seq, return seq)] acknowledged writes
        self.ctx_meta = {}          # '' | 'sub1' -> index of the last acknowledged context metadata
        self.db2 = {}               # key -> set of acceptable results JSON (second, bare database)
        self.clock = 0

    def copy(self):
        r = Ref()
        r.keys_acked = {k: dict(v) for k, v in self.keys_acked.items()}
        r.names = dict(self.names)
        r.annot = dict(self.annot)
        r.log = list(self.log)
        r.log_times = list(self.log_times)
        r.db_only = set(self.db_only)
        r.annot_writes = {k: list(v) for k, v in self.annot_writes.items()}
        r.files = {k: set(v) for k, v in self.files.items()}
        r.res_writes = {k: list(v) for k, v in self.res_writes.items()}
        r.ctx_meta = dict(self.ctx_meta)
        r.db2 = {k: set(v) for k, v in self.db2.items()}
        r.clock = self.clock
        return r

    def note_annotation(self, name, text, times):
        if times is None:
            # an operation executed sequentially (journal/exception modes, pre-stores):
            # after everything acknowledged so far
            times = (self.clock + 1, self.clock + 1)
        self.clock = max(self.clock, times[1])
        self.annot_writes.setdefault(name, []).append((text, times[0], times[1]))
        self.annot[name] = text

    def note_results(self, key, js, times):
        if times is None:
            times = (self.clock + 1, self.clock + 1)
        self.clock = max(self.clock, times[1])
        self.res_writes.setdefault(key, []).append((js, times[0], times[1]))

    def results_candidates(self, key):
        """Acceptable results of a committed key: the latest acknowledged results (any
        maximal one under concurrency); None (no results) if none was ever stored."""
        ws = self.res_writes.get(key, [])
        if not ws:
            return {None}
        latest = {t for (t, i, r) in ws if not any(r < i2 for (_t2, i2, _r2) in ws)}
        # results parsed from NONMEM output files stored next to the model take precedence over
        # results.json in pharmpy (get_modelfit_results): once such files are acknowledged their
        # results stay acceptable whatever is stored afterwards
        nm = set(NMRES.values())
        return latest | {t for (t, _i, _r) in ws if t in nm}

    def annotation_candidates(self, name):
        """Linearizable outcomes: the text of any acknowledged write that is not definitely
        before another acknowledged write of the same name (A.return < B.invoke)."""
        ws = self.annot_writes.get(name, [])
        return {t for (t, i, r) in ws if not any(r < i2 for (_t2, i2, _r2) in ws)}


SUB = 'sub1'


def store_name(op):
    """Name bound by a store operation; names of the subcontext are prefixed 'sub1/'."""
    e = POOL[op['model']]
    n = {'store': e['name'], 'store_input': 'input', 'store_final': 'final',
         'dummy_run': e['name']}[op['kind']]
    return f'{SUB}/{n}' if op.get('sub') else n


def log_path_of(op):
    base_ = f'ctx/{SUB}' if op.get('sub') else 'ctx'
    return base_ if op['model'] is None else f"{base_}/@{POOL[op['model']]['name']}"


def apply_ack(ref, op):
    """Update the reference model with an acknowledged operation."""
    k = op['kind']
    if k in BINDERS:
        e = POOL[op['model']]
        name = store_name(op)
        st = ref.keys_acked.setdefault(e['key'], {'results': False})
        js = op_results_json(op)
        st['results'] = st['results'] or js is not None
        if js is not None:
            ref.note_results(e['key'], js, op.get('_times'))
        if k == 'dummy_run':
            ref.files.setdefault(e['key'], set()).add('dummyfile')
        # first binding of a name wins (store_key does nothing if the name exists)
        if name not in ref.names:
            ref.names[name] = e['key']
        ref.note_annotation(name, e['desc'], op.get('_times'))
    elif k == 'db_store_model':
        e = POOL[op['model']]
        ref.keys_acked.setdefault(e['key'], {'results': False})
    elif k == 'db_store_entry':
        e = POOL[op['model']]
        st = ref.keys_acked.setdefault(e['key'], {'results': False})
        if e['has_results']:
            st['results'] = True
            ref.note_results(e['key'], e['results_json'], op.get('_times'))
    elif k in ('metadata', 'localfile'):
        ref.files.setdefault(POOL[op['model']]['key'], set()).add(k)
    elif k == 'nmfiles':
        e = POOL[op['model']]
        ref.files.setdefault(e['key'], set()).add(k)
        ref.note_results(e['key'], NMRES[e['idx']], op.get('_times'))
    elif k == 'ctx_metadata':
        ref.ctx_meta[SUB if op.get('sub') else ''] = op['v']
    elif k == 'db2_store':
        e = POOL[op['model']]
        ref.db2.setdefault(e['key'], set()).add(e['results_json'] if e['has_results'] else None)
    elif k == 'log':
        ref.log.append((op['sev'], log_path_of(op), op['msg']))
        ref.log_times.append(op.get('_times'))
    elif k == 'annotate':
        ref.note_annotation(POOL[op['model']]['name'], op['text'], op.get('_times'))


def name_conflict(ref, op):
    """Binding a name that is already bound to another key is outside the contract
    (first binding wins, DESIGN.md 4): the workload never does it."""
    if op['kind'] in BINDERS:
        name = store_name(op)
        e = POOL[op['model']]
        return name in ref.names and ref.names[name] != e['key']
    return False


def do_nmfiles(db, e):
    """What the NONMEM runner does with the output files of a run: one transaction on the
    entry's key that copies them next to the model (model.lst, model.ext, ...)."""
    with db.transaction(e['model']) as txn:
        for suf in NM_SUFFIXES:
            txn.store_local_file(os.path.join(_P['nm_dir'], 'pheno' + suf), new_filename='model' + suf)


def do_op(ctx, op, localfile):
    k = op['kind']
    e = POOL[op['model']] if op.get('model') is not None else None
    if op.get('sub'):
        ctx = quiet(ctx.create_subcontext(SUB))
    if k == 'store':
        ctx.store_model_entry(e['me'])
    elif k == 'store_input':
        ctx.store_input_model_entry(e['me'])
    elif k == 'store_final':
        ctx.store_final_model_entry(e['me'])
    elif k == 'db_store_model':
        ctx.model_database.store_model(e['model'])
    elif k == 'db_store_entry':
        ctx.model_database.store_model_entry(e['me'])
    elif k == 'log':
        fn = {'info': ctx.log_info, 'warning': ctx.log_warning, 'error': ctx.log_error}[op['sev']]
        fn(op['msg'], model=e['model'] if e is not None else None)
    elif k == 'annotate':
        ctx.store_annotation(e['name'], op['text'])
    elif k == 'metadata':
        ctx.model_database.store_metadata(e['model'], {'tool': 'x', 'n': 3})
    elif k == 'localfile':
        ctx.model_database.store_local_file(e['model'], localfile)
    elif k == 'nmfiles':
        do_nmfiles(ctx.model_database, e)
    elif k == 'dummy_run':
        # the real dummy estimation tool: store_model, retrieve_model, a transaction that stores
        # its results file, then context.store_model_entry with the results attached
        from pharmpy.tools.external.dummy.run import execute_model
        execute_model(_P['ModelEntry'].create(e['model']), ctx)
    elif k == 'ctx_metadata':
        ctx.store_metadata(CTX_METADATA[op['v']])
    elif k in ('db2_store', 'db2_retrieve'):
        # a second, bare database directory next to the context, not created in advance: every
        # operation constructs its own handle (first use of a fresh database by several threads)
        db2path = os.path.join(str(ctx.path.parent), 'db2')
        if op.get('rel'):
            db2path = os.path.relpath(db2path, os.getcwd())     # the same database, spelled relatively
        db2 = type(ctx.model_database)(db2path)
        if k == 'db2_store':
            db2.store_model_entry(e['me'])
        else:
            return ('entry', db2.retrieve_model_entry(_P['ModelHash'](e['key'])))
    elif k == 'retrieve':
        return ('retrieved', None)
    elif k == 'retrieve_log':
        return ('log', ctx.retrieve_log())
    return None


# --------------------------------------------------------------------------
# content checks
# --------------------------------------------------------------------------
class Verdicts:
    def __init__(self):
        self.violations = []
        self.stats = {}

    def count(self, key, n=1):
        self.stats[key] = self.stats.get(key, 0) + n

    def viol(self, cls, detail):
        sig = f'{PROP}/{cls}'
        if not any(v['signature'] == sig for v in self.violations):
            self.violations.append({'signature': sig, 'detail': detail})


def content_problem(me, key, acceptable):
    """None if the retrieved entry is the golden content of `key` with results from the set
    `acceptable` (results JSON strings; None = no results)."""
    g = GOLD[key]
    if me is None or me.model is None:
        return 'no model returned'
    if not (me.model == g['model']):
        return 'model differs from the golden retrieve'
    h = str(_P['ModelHash'](me.model))
    if h != g['hash']:
        return f'content hash {h} differs from the golden retrieve {g["hash"]} (dataset/model dict)'
    res = me.modelfit_results
    if res is None:
        if None not in acceptable:
            return 'acknowledged results are missing'
        return None
    js = res.to_json()
    if js not in acceptable:
        if acceptable == {None}:
            return 'results returned although none were stored'
        if js in [e['results_json'] for e in POOL if e['key'] == key and e['results_json']]:
            return 'results of another (earlier) store of this key are returned'
        return 'results differ from what was stored (partial or altered)'
    return None


def acceptable_results(ref, infl, key, acked):
    acc = set(infl.result_jsons.get(key, set()))
    if acked or ref.res_writes.get(key):
        # (results can be acknowledged for a key that is not committed yet: NONMEM output files
        # stored next to a model that is only stored afterwards)
        acc |= ref.results_candidates(key)
    elif not acc:
        acc = {None}
    if key in infl.noresult_keys:
        acc.add(None)      # an interrupted store WITHOUT results may be what committed the key
    # never committed + only interrupted stores carrying results: visible means complete
    return acc


class Infl:
    """Summary of the operations that were in flight (killed or failed) when the
    state under inspection was produced: for these the oracle accepts "absent" or
    "complete", never demands either."""

    def __init__(self, ops):
        self.ops = [o for o in (ops or []) if o is not None]
        self.keys = {}             # key -> kind of the interrupted transaction
        self.result_jsons = {}      # key -> set of results JSON of interrupted stores
        self.noresult_keys = set()  # keys with an interrupted store that carries NO results
        self.annot_alts = {}       # name -> set of texts
        self.logs = []             # (sev, path, msg)
        self.datasets = set()
        self.names = {}            # name -> key  (bindings that may or may not exist)
        self.ctx_meta = set()      # '' | 'sub1': an interrupted context metadata write
        self.db2 = {}              # key -> results JSONs of interrupted stores into the bare database
        for o in self.ops:
            k = o['kind']
            if k == 'ctx_metadata':
                self.ctx_meta.add(SUB if o.get('sub') else '')
                continue
            if k == 'db2_store':
                e = POOL[o['model']]
                self.db2.setdefault(e['key'], set()).add(e['results_json'] if e['has_results'] else None)
                continue
            if k == 'log':
                self.logs.append((o['sev'], log_path_of(o), o['msg']))
            elif k == 'annotate':
                self.annot_alts.setdefault(POOL[o['model']]['name'], set()).add(o['text'])
            elif k in READS:
                pass
            else:
                e = POOL[o['model']]
                self.keys[e['key']] = k
                self.datasets.add(e['dataset'])
                if op_may_commit_without_results(o):
                    self.noresult_keys.add(e['key'])
                js = op_results_json(o)
                if js is not None:
                    self.result_jsons.setdefault(e['key'], set()).add(js)
                if k in BINDERS:
                    nm = store_name(o)
                    self.annot_alts.setdefault(nm, set()).add(e['desc'])
                    self.names[nm] = e['key']

    @property
    def annotation_writers(self):
        return any(o['kind'] in ('annotate',) + BINDERS for o in self.ops)


def check_state(root, ref, inflight, V, where, wl_models, do_progress=True):
    """Reopen the directory with fresh objects and check R1-R4.  `inflight` is one
    operation, a list of operations, or None."""
    ModelHash = _P['ModelHash']
    infl = Infl(inflight if isinstance(inflight, list) else [inflight])
    # the restart is a NEW process: fresh module state, a pid of its own, and every process
    # that took part in the history is dead by now
    Ctx, _dbm, _cxm = private_modules()
    with virtual_process(_RESTART_PID, {_RESTART_PID}):
        _check_state(Ctx, root, ref, infl, V, where, wl_models, do_progress)


_RESTART_PID = 900


def _check_state(Ctx, root, ref, infl, V, where, wl_models, do_progress):
    ModelHash = _P['ModelHash']
    try:
        ctx = quiet(Ctx('ctx', ref=root))
    except Exception as ex:
        V.viol(f'reopen-failed/{type(ex).__name__}', f'{where}: reopening the context raised {ex!r}')
        return
    db = ctx.model_database
    subctx = [None]
    # the context itself (created before any fault) is still recognised as one
    try:
        if not Ctx.exists('ctx', ref=root):
            V.viol('context-not-recognised', f'{where}: LocalDirectoryContext.exists() is False')
        subs = ctx.list_all_subcontexts()
        if subs not in ([], [SUB]):
            V.viol('context-not-recognised', f'{where}: list_all_subcontexts() = {subs}')
        if subs:
            sc = quiet(ctx.get_subcontext(SUB))
            par = sc.get_parent_context()
            if str(par.path) != str(ctx.path) or sc.context_path != f'ctx/{SUB}' or \
                    str(sc.model_database.path) != str(db.path):
                V.viol('context-not-recognised', f'{where}: subcontext {sc.context_path} / parent {par.path}')
    except Exception as ex:
        V.viol(f'context-not-recognised/{type(ex).__name__}', f'{where}: {ex!r}')

    def cx(name):
        """(context object, plain name) for a possibly 'sub1/'-prefixed name."""
        if name.startswith(SUB + '/'):
            if subctx[0] is None:
                subctx[0] = quiet(ctx.get_subcontext(SUB))
            return subctx[0], name[len(SUB) + 1:]
        return ctx, name

    pending_sig = ('committed-unretrievable/PendingTransactionError/'
                   'later-transaction-in-flight-on-same-key')

    def is_f3(key):
        """Known finding F3: an interrupted transaction of this key left its PENDING marker."""
        return key in infl.keys and os.path.exists(
            os.path.join(str(db.path), key, '.pharmpy', 'PENDING'))

    # ---- R1/R2 by key
    for idx in wl_models:
        e = POOL[idx]
        key = e['key']
        acked = key in ref.keys_acked
        acc = acceptable_results(ref, infl, key, acked)
        try:
            me = db.retrieve_model_entry(ModelHash(key))
        except Exception as ex:
            if acked:
                if isinstance(ex, _P['Pending']) and is_f3(key):
                    V.viol(pending_sig,
                           f'{where}: {e["name"]} was committed earlier; an interrupted '
                           f'{infl.keys[key]} on the same key left PENDING and the entry is refused')
                else:
                    V.viol(f'committed-unretrievable/{type(ex).__name__}',
                           f'{where}: committed entry {e["name"]} ({key[:8]}) raises {ex!r}')
            else:
                V.count('r1.invisible')
            continue
        prob = content_problem(me, key, acc)
        if prob is not None:
            V.viol('partial-or-wrong-entry-visible' if not acked else 'committed-entry-corrupted',
                   f'{where}: retrieve of {e["name"]} ({key[:8]}) succeeded but {prob}')
        elif acked:
            V.count('r2.committed_ok')
        else:
            V.count('r1.complete_visible')
        if prob is None:
            # the entry is visible: every other accessor of the database must serve the same,
            # complete content (separate snapshots of the same, quiescent state)
            try:
                m2 = db.retrieve_model(ModelHash(key))
                r2 = db.retrieve_modelfit_results(ModelHash(key))
                if not (m2 == GOLD[key]['model']) or str(ModelHash(m2)) != GOLD[key]['hash']:
                    V.viol('accessors-disagree', f'{where}: retrieve_model({e["name"]}) differs from '
                                                 f'what retrieve_model_entry returned')
                elif (None if r2 is None else r2.to_json()) != (
                        None if me.modelfit_results is None else me.modelfit_results.to_json()):
                    V.viol('accessors-disagree', f'{where}: retrieve_modelfit_results({e["name"]}) differs '
                                                 f'from the results in retrieve_model_entry')
                dest = os.path.join(scratch_root(), 'copyout')
                shutil.rmtree(dest, ignore_errors=True)
                os.makedirs(dest)
                db.retrieve_local_files(ModelHash(key), dest)
                kdir = os.path.join(str(db.path), key)
                for fn in sorted(os.listdir(kdir)):
                    src = os.path.join(kdir, fn)
                    if os.path.isfile(src):
                        with simfs._orig['open'](src, 'rb') as f1:
                            want_bytes = f1.read()
                        try:
                            with simfs._orig['open'](os.path.join(dest, fn), 'rb') as f2:
                                got_bytes = f2.read()
                        except OSError:
                            got_bytes = None
                        if got_bytes != want_bytes:
                            V.viol('accessors-disagree', f'{where}: retrieve_local_files({e["name"]}) did '
                                                         f'not deliver {fn} verbatim')
                V.count('r2.accessors_ok')
            except Exception as ex:
                V.viol(f'accessors-disagree/{type(ex).__name__}',
                       f'{where}: {e["name"]} is retrievable as an entry but another accessor raises {ex!r}')
    # ---- files stored next to an entry (store_metadata, store_local_file) are verbatim
    for key, kinds in ref.files.items():
        if key in infl.keys:
            continue            # an interrupted later transaction hides the key (finding F3)
        kdir = os.path.join(str(db.path), key)
        try:
            if 'metadata' in kinds:
                import json as _json
                with simfs._orig['open'](os.path.join(kdir, '.pharmpy', 'metadata.json')) as fh:
                    if _json.load(fh) != {'tool': 'x', 'n': 3}:
                        V.viol('stored-file-corrupted', f'{where}: metadata of {key[:8]} differs')
            if 'localfile' in kinds:
                pth = db.retrieve_file(ModelHash(key), 'local.lst')
                with simfs._orig['open'](pth) as fh:
                    if fh.read() != 'some local file\n' * 40:
                        V.viol('stored-file-corrupted', f'{where}: local file of {key[:8]} differs')
            if 'nmfiles' in kinds:
                for suf in NM_SUFFIXES:
                    pth = db.retrieve_file(ModelHash(key), 'model' + suf)
                    with simfs._orig['open'](pth, 'rb') as fh, \
                            simfs._orig['open'](os.path.join(_P['nm_dir'], 'pheno' + suf), 'rb') as f0:
                        if fh.read() != f0.read():
                            V.viol('stored-file-corrupted', f'{where}: model{suf} of {key[:8]} differs')
            if 'dummyfile' in kinds:
                found = [fn for fn in os.listdir(kdir) if fn.endswith('_results.json')]
                if not found:
                    V.viol('stored-file-unretrievable/missing', f'{where}: the results file stored by '
                                                                f'the dummy runner for {key[:8]} is gone')
            V.count('r2.files_ok')
        except Exception as ex:
            V.viol(f'stored-file-unretrievable/{type(ex).__name__}',
                   f'{where}: acknowledged metadata/local file of {key[:8]}: {ex!r}')
    # ---- by name
    try:
        names = ctx.list_all_names()
        try:
            names = names + [f'{SUB}/{n}' for n in quiet(ctx.get_subcontext(SUB)).list_all_names()]
        except ValueError:
            pass          # the subcontext does not exist (yet)
    except Exception as ex:
        V.viol(f'list-names-failed/{type(ex).__name__}', f'{where}: {ex!r}')
        names = []
    for name, key in ref.names.items():
        if name not in names:
            V.viol('committed-name-lost', f'{where}: acknowledged name {name!r} is not listed')
            continue
        try:
            c_, plain = cx(name)
            if plain == 'input':
                me = c_.retrieve_input_model_entry()
            elif plain == 'final':
                me = c_.retrieve_final_model_entry()
            else:
                me = c_.retrieve_model_entry(plain)
        except Exception as ex:
            if isinstance(ex, _P['Pending']) and is_f3(key):
                V.viol(pending_sig,
                       f'{where}: name {name!r} committed earlier; interrupted {infl.keys[key]} on the '
                       f'same key left PENDING')
            elif isinstance(ex, KeyError) and 'annotation' in str(ex).lower() and infl.annotation_writers:
                V.viol('committed-unretrievable/KeyError/annotations-lost',
                       f'{where}: name {name!r} committed earlier; an interrupted annotation '
                       f'write lost its annotation: {ex!r}')
            else:
                V.viol(f'committed-unretrievable/{type(ex).__name__}',
                       f'{where}: committed name {name!r} raises {ex!r}')
            continue
        prob = content_problem(me, key, acceptable_results(ref, infl, key, True))
        if prob is None and me.model.name != plain:
            prob = f'name is {me.model.name!r}'
        want = ref.annot.get(name)
        alts = ref.annotation_candidates(name) | infl.annot_alts.get(name, set())
        if prob is None and me.model.description not in alts:
            prob = f'description is {me.model.description!r}, stored {want!r}'
        if prob is not None:
            V.viol('committed-entry-corrupted', f'{where}: retrieve by name {name!r}: {prob}')
        else:
            V.count('r2.by_name_ok')
        try:
            k2 = c_.retrieve_key(plain)
            if str(k2) != key:
                V.viol('name-bound-to-wrong-key', f'{where}: {name!r} -> {str(k2)[:8]}, stored {key[:8]}')
            n2 = c_.retrieve_name(ModelHash(key))
            if c_ is not ctx:
                n2 = f'{SUB}/{n2}'
            if ref.names.get(n2) != key and infl.names.get(n2) != key:
                V.viol('name-bound-to-wrong-key', f'{where}: retrieve_name({key[:8]}) = {n2!r}')
        except Exception as ex:
            if isinstance(ex, _P['Pending']) and is_f3(key):
                V.viol(pending_sig, f'{where}: retrieve_key({name!r}) refused: PENDING left by an '
                                    f'interrupted {infl.keys[key]}')
            else:
                V.viol(f'committed-unretrievable/{type(ex).__name__}',
                       f'{where}: retrieve_key/retrieve_name for {name!r}: {ex!r}')
    # names that are listed but were never acknowledged must resolve to complete content or raise
    for name in names:
        if name in ref.names:
            continue
        try:
            c_, plain = cx(name)
            me = c_.retrieve_model_entry(plain)
        except Exception:
            V.count('r1.unacked_name_raises')
            continue
        key = None
        try:
            key = str(c_.retrieve_key(plain))
        except Exception:
            pass
        if key not in GOLD or infl.names.get(name) != key:
            V.viol('partial-or-wrong-entry-visible',
                   f'{where}: name {name!r} that nobody stored resolves to {key}')
            continue
        prob = content_problem(me, key, acceptable_results(ref, infl, key, key in ref.keys_acked) |
                               ({None} if key in ref.keys_acked else set()))
        if prob is None and me.model.name != plain:
            prob = f'name is {me.model.name!r}'
        ok_desc = infl.annot_alts.get(name, set()) | ref.annotation_candidates(name)
        if prob is None and me.model.description not in ok_desc:
            prob = (f'description is {me.model.description!r}, the interrupted store carried '
                    f'{sorted(ok_desc)}')
        if prob is not None:
            V.viol('partial-or-wrong-entry-visible',
                   f'{where}: unacknowledged name {name!r} is retrievable but {prob}')
    # ---- annotations (also ones written with store_annotation only)
    for name, text in ref.annot.items():
        alts = ref.annotation_candidates(name) | infl.annot_alts.get(name, set())
        try:
            c_, plain = cx(name)
            got = c_.retrieve_annotation(plain)
        except Exception as ex:
            if infl.annotation_writers:
                V.viol('committed-unretrievable/KeyError/annotations-lost',
                       f'{where}: acknowledged annotation of {name!r} lost by an interrupted '
                       f'annotation write: {ex!r}')
            else:
                V.viol(f'annotation-lost/{type(ex).__name__}', f'{where}: {name!r}: {ex!r}')
            continue
        if got not in alts:
            V.viol('annotation-not-verbatim', f'{where}: {name!r}: got {got!r}, stored {text!r}')
    # ---- R3 log
    check_log(ctx, ref, infl, V, where)
    check_log_levels(ctx, V, where, infl)
    # ---- what the context keeps besides entries: common options (written when the context was
    # created, before any fault) and tool metadata
    try:
        co = ctx.retrieve_common_options()
        if co != COMMON_OPTIONS:
            V.viol('common-options-changed', f'{where}: retrieve_common_options() = {co!r}')
    except FileNotFoundError:
        # contexts the in-situ mode creates before this check existed pass no options
        if os.path.exists(os.path.join(root, 'ctx', 'common_options')):
            raise
    except Exception as ex:
        V.viol(f'common-options-changed/{type(ex).__name__}', f'{where}: retrieve_common_options: {ex!r}')
    # ---- the second, bare database (only used by the concurrent mode)
    if ref.db2 or infl.db2:
        db2 = type(db)(os.path.join(root, 'db2'))
        for key in sorted(set(ref.db2) | set(infl.db2)):
            acc = set(ref.db2.get(key, set())) | set(infl.db2.get(key, set()))
            try:
                me = db2.retrieve_model_entry(ModelHash(key))
            except Exception as ex:
                if key in ref.db2 and not (isinstance(ex, _P['Pending']) and key in infl.db2):
                    V.viol(f'committed-unretrievable/{type(ex).__name__}',
                           f'{where}: entry {key[:8]} committed to the bare database raises {ex!r}')
                continue
            prob = content_problem(me, key, acc)
            if prob is not None:
                V.viol('partial-or-wrong-entry-visible' if key not in ref.db2 else 'committed-entry-corrupted',
                       f'{where}: bare database: retrieve of {key[:8]} succeeded but {prob}')
            else:
                V.count('r2.db2_ok')
    for which in ('', SUB):
        if which in ref.ctx_meta or which in infl.ctx_meta:
            continue
        try:
            c_ = ctx if which == '' else quiet(ctx.get_subcontext(SUB))
        except ValueError:
            continue
        try:
            got = c_.retrieve_metadata()
        except (OSError, ValueError):
            pass
        else:
            V.viol('context-metadata-not-verbatim', f'{where}: {which or "ctx"} serves metadata {got!r} '
                                                    f'although none was stored in this context')
    for which, v in ref.ctx_meta.items():
        if which in infl.ctx_meta:
            continue        # a later, interrupted store_metadata rewrites the file in place
        try:
            c_ = ctx if which == '' else quiet(ctx.get_subcontext(SUB))
            got = c_.retrieve_metadata()
            if got != CTX_METADATA[v]:
                V.viol('context-metadata-not-verbatim', f'{where}: {which or "ctx"}: {got!r}')
            else:
                V.count('r2.ctx_metadata_ok')
        except Exception as ex:
            V.viol(f'context-metadata-lost/{type(ex).__name__}', f'{where}: {which or "ctx"}: {ex!r}')
    # ---- R4 progress: stores of keys that were not in flight succeed
    if do_progress:
        ref2 = ref.copy()
        # order: first a model with ANOTHER dataset than the interrupted stores (it may take
        # over a file number the interrupted store had reserved), then the ones sharing it
        order = list(wl_models)
        if infl.datasets:
            others = [e_['idx'] for e_ in POOL if e_['dataset'] not in infl.datasets]
            if others and not any(POOL[i]['dataset'] not in infl.datasets for i in order):
                order.append(others[len(infl.ops) % len(others)])
            order.sort(key=lambda i: POOL[i]['dataset'] in infl.datasets)
        for idx in order:
            e = POOL[idx]
            if e['key'] in infl.keys:
                continue
            op = {'kind': 'store', 'model': idx}
            if name_conflict(ref2, op) or infl.names.get(e['name'], e['key']) != e['key']:
                continue
            try:
                ctx.store_model_entry(e['me'])
            except Exception as ex:
                shares = e['dataset'] in infl.datasets
                V.viol(f'store-after-crash-fails/{type(ex).__name__}' +
                       ('/shares-dataset-with-interrupted-store' if shares else ''),
                       f'{where}: storing {e["name"]} (not in flight at the crash) raises {ex!r}')
                continue
            apply_ack(ref2, op)
            try:
                me = ctx.retrieve_model_entry(e['name'])
                prob = content_problem(me, e['key'], acceptable_results(ref2, infl, e['key'], True))
            except Exception as ex:
                prob = f'raises {ex!r}'
            if prob is not None:
                V.viol('store-after-crash-not-retrievable',
                       f'{where}: {e["name"]} stored after the crash: {prob}')
            else:
                V.count('r4.progress_ok')
        # ---- R6 retry: the user repeats the interrupted stores.  Each retry may be refused
        # (PENDING left behind: by design) - but if it is ACCEPTED the entry must afterwards be
        # complete, never the half-written files of the interrupted attempt published as they are
        retried = set()
        for op in infl.ops:
            if op['kind'] not in KEY_COMMITTERS or op.get('sub'):
                continue
            e = POOL[op['model']]
            if (op['kind'], e['idx']) in retried:
                continue
            retried.add((op['kind'], e['idx']))
            if op['kind'] in BINDERS:
                nm = store_name(op)
                if name_conflict(ref2, op) or any(k_ != e['key'] for n_, k_ in infl.names.items() if n_ == nm) or \
                        sum(1 for o in infl.ops if o['kind'] in BINDERS and store_name(o) == nm and
                            POOL[o['model']]['key'] != e['key']):
                    continue
            try:
                do_op(ctx, op, os.path.join(scratch_root(), 'local.lst'))
            except Exception:
                V.count('r6.retry_refused')
                continue
            apply_ack(ref2, op)
            try:
                me = db.retrieve_model_entry(ModelHash(e['key']))
                prob = content_problem(me, e['key'], acceptable_results(ref2, infl, e['key'], True))
                if prob is None and op['kind'] in BINDERS:
                    c_, plain = cx(store_name(op))
                    me = c_.retrieve_model_entry(plain)
                    prob = content_problem(me, e['key'], acceptable_results(ref2, infl, e['key'], True))
            except Exception as ex:
                prob = f'raises {ex!r}'
            if prob is not None:
                V.viol('retried-store-publishes-partial-entry',
                       f'{where}: the interrupted {fmt_op(op)} was repeated and accepted, but then {prob}')
            else:
                V.count('r6.retry_accepted_complete')


def check_log_levels(ctx, V, where, infl):
    """retrieve_log(level=...) of the context and of its subcontext: a level is a view of the one
    log - an order-preserving, verbatim selection of the rows of 'all'; 'current' is contained
    in 'lower'; a context's own messages are in both of its views, and the top context's own
    messages are not in the subcontext's view of itself."""
    def rows_of(c, level):
        df = c.retrieve_log(level=level)
        return list(zip(df['path'].tolist(), df['time'].tolist(), df['severity'].tolist(),
                        df['message'].tolist()))

    def subsequence(a, b):
        it = iter(b)
        return all(any(x == y for y in it) for x in a)

    try:
        allrows = rows_of(ctx, 'all')
    except Exception:
        return          # judged by check_log
    ctxs = [(ctx, 'ctx')]
    try:
        ctxs.append((quiet(ctx.get_subcontext(SUB)), f'ctx/{SUB}'))
    except ValueError:
        pass
    for c, cpath in ctxs:
        try:
            if rows_of(c, 'all') != allrows:
                V.viol('log-levels', f'{where}: {cpath}: retrieve_log("all") differs from the top context\'s')
                return
            cur, low = rows_of(c, 'current'), rows_of(c, 'lower')
        except Exception as ex:
            V.viol(f'log-levels/{type(ex).__name__}', f'{where}: {cpath}: retrieve_log(level) raises {ex!r}')
            return
        if not subsequence(low, allrows) or not subsequence(cur, low):
            V.viol('log-levels', f'{where}: {cpath}: a level view is not an order-preserving selection '
                                 f'of the log ({len(cur)}/{len(low)}/{len(allrows)} rows)')
            return
        own = [r for r in allrows if r[0] == cpath]
        if [r for r in cur if r[0] == cpath] != own or [r for r in low if r[0] == cpath] != own:
            V.viol('log-levels', f'{where}: {cpath}: the context\'s own messages are missing from its '
                                 f'"current"/"lower" view')
            return
        if cpath != 'ctx' and any(r[0] == 'ctx' for r in cur):
            V.viol('log-levels', f'{where}: {cpath}: "current" shows messages of the parent context')
            return
        if cpath != 'ctx':
            below = [r for r in allrows if r[0].startswith(cpath + '/')]
            if [r for r in low if r[0].startswith(cpath + '/')] != below:
                V.viol('log-levels', f'{where}: {cpath}: "lower" misses messages logged below the context')
                return
    V.count('r3.log_levels_ok')


def check_log(ctx, ref, infl, V, where, ordered=True):
    try:
        df = ctx.retrieve_log()
    except Exception as ex:
        if infl.logs:
            # A torn append of a long message leaves an unterminated quoted field and
            # pandas refuses the whole file.  The statement promises crash safety for
            # interrupted *stores*, not for interrupted log writes: observed, not flagged.
            V.count('observed.log_unreadable_after_torn_log_append')
        else:
            V.viol(f'log-unreadable/{type(ex).__name__}', f'{where}: retrieve_log raises {ex!r}')
        return
    rows = list(zip(df['severity'].tolist(), df['path'].tolist(), df['message'].tolist()))
    want = [tuple(x) for x in ref.log]
    if ref.log_times and all(t is not None for t in ref.log_times):
        # concurrent history: exactly once, verbatim, consistent with real-time order
        pos = {}
        for w in want:
            idxs = [i for i, r in enumerate(rows) if r == w]
            if len(idxs) != 1 and infl.logs:
                # an interrupted/failed append left a partial line that swallows the next
                # one: outside the statement (see the torn-append note above), observed only
                V.count('observed.log_damaged_after_interrupted_log_append')
                return
            if len(idxs) != 1:
                V.viol('log-message-not-verbatim' if not idxs else 'log-message-duplicated',
                       f'{where}: acknowledged message {w!r} occurs {len(idxs)} times')
                return
            pos[w] = idxs[0]
        for a, ta in zip(want, ref.log_times):
            for b, tb in zip(want, ref.log_times):
                if ta[1] < tb[0] and pos[a] > pos[b]:
                    V.viol('log-order', f'{where}: {a[2][:40]!r} returned before {b[2][:40]!r} was '
                                        f'logged but comes after it in the log')
                    return
        extra = [r for i, r in enumerate(rows) if i not in set(pos.values())]
        for r in extra:
            if r not in infl.logs:
                V.viol('log-row-count', f'{where}: row {r!r} was never logged')
                return
        V.count('r3.log_ok')
        return
    if ordered and not infl.logs:
        if rows != want:
            n = min(len(rows), len(want))
            i = next((j for j in range(n) if rows[j] != want[j]), n)
            got = rows[i] if i < len(rows) else None
            exp = want[i] if i < len(want) else None
            cls = 'log-message-not-verbatim'
            if got is not None and exp is not None and got[:2] == exp[:2] and isinstance(got[2], float):
                cls = 'log-message-not-verbatim/NaN'
            elif len(rows) != len(want) and rows[:n] == want[:n]:
                cls = 'log-row-count'
            V.viol(cls, f'{where}: row {i}: logged {exp!r}, retrieved {got!r} '
                        f'({len(rows)} rows, {len(want)} acknowledged)')
            return
    else:
        # acknowledged messages form a subsequence; the rest are interrupted ones
        it = iter(rows)
        pos = 0
        for w in want:
            for r in it:
                pos += 1
                if r == w:
                    break
            else:
                if infl.logs:
                    V.count('observed.log_damaged_after_interrupted_log_append')
                    return
                cls = 'log-message-not-verbatim'
                V.viol(cls, f'{where}: acknowledged message {w!r} not found in order '
                            f'(retrieved {len(rows)} rows)')
                return
        extra = len(rows) - len(want)
        if extra > len(infl.logs):
            V.viol('log-row-count', f'{where}: {len(rows)} rows, {len(want)} acknowledged, '
                                    f'{len(infl.logs)} interrupted')
            return
    V.count('r3.log_ok')


# --------------------------------------------------------------------------
# one simulated run (journal mode)
# --------------------------------------------------------------------------
class OneShotFault:
    """Raise one OSError at file-system operation number k (the process survives)."""

    OTHER = (ValueError, TypeError, ValueError, TypeError, RuntimeError, KeyError, MemoryError)

    def __init__(self, k, short=False, other=None):
        self.k = k
        self.short = short
        self.other = other          # None, or an exception class that is not an OSError
        self.fired = None
        self.fired_during = None
        self.enospc = False

    def fs_op(self, fs, idx, pid, kind, path, nbytes):
        import errno
        if self.enospc and kind == 'write':
            self.enospc = False
            return ('oserror', errno.ENOSPC)
        if idx != self.k:
            return None
        self.fired = (kind, fs.rel(path))
        if self.other is not None:
            return ('raise', self.other)
        if kind == 'write':
            if self.short and nbytes > 1:
                self.enospc = True
                return ('short', nbytes // 2)
            return ('oserror', errno.ENOSPC)
        if kind.startswith('creat') or kind.startswith('open'):
            return ('oserror', errno.EMFILE)
        if kind in ('mkdir', 'symlink'):
            return ('oserror', errno.ENOSPC)
        return ('oserror', errno.EIO)


def run_excpoints(cfg, tape, want_trace=False):
    """Exception enumeration: the workload is executed from scratch once per sampled
    file-system operation k with an OSError injected at k (the process survives and
    carries on with its remaining operations); then restart checks."""
    V = Verdicts()
    _MEMO_ON[0] = bool(cfg.get('memo', True)) and not want_trace
    wl = gen_workload(tape)
    localfile = os.path.join(scratch_root(), 'local.lst')
    if not os.path.exists(localfile):
        with simfs._orig['open'](localfile, 'w') as fh:
            fh.write('some local file\n' * 40)
    h = hashlib.sha256()
    harness = None
    states = set()
    trace = []

    def execute(fault):
        root = fresh_root()
        fs = simfs.SimFS(root, tape=None, faults=fault, stats=V.stats)
        _CLOCK[0] = SimClock(None)
        ref = Ref()
        failed = []
        nonlocal harness
        Ctx1 = private_modules()[0]
        with fs, virtual_process(1, {1}):
            ctx = quiet(Ctx1('ctx', ref=root, common_options=COMMON_OPTIONS))
            k0 = fs.nops
            maybe = {}      # name -> key that a failed store may have bound
            for op in wl['ops']:
                if name_conflict(ref, op):
                    continue
                if op['kind'] in BINDERS and \
                        maybe.get(store_name(op), POOL[op['model']]['key']) != POOL[op['model']]['key']:
                    # the name may already be bound to other content by the failed store:
                    # re-using it is outside the contract (first binding wins)
                    continue
                try:
                    do_op(ctx, op, localfile)
                except Exception as ex:
                    if fault is None or (fault.fired is None):
                        V.viol(f'fault-free-operation-failed/{op["kind"]}/{type(ex).__name__}',
                               f'{fmt_op(op)} raised {ex!r} without any fault')
                        return None
                    hit_now = fault.fired is not None and fault.fired_during is None
                    if hit_now:
                        fault.fired_during = op          # the operation that met the injected error
                    elif not (isinstance(ex, _P['Pending']) and op.get('model') is not None and any(
                            f.get('model') is not None and POOL[f['model']]['key'] == POOL[op['model']]['key']
                            for f in failed)):
                        # a LATER operation fails although nothing was injected into it: only a
                        # PENDING marker left by the interrupted transaction of the same key is a
                        # known reason (finding F3)
                        V.viol(f'operation-fails-after-earlier-fault/{op["kind"]}/{type(ex).__name__}',
                               f'{fmt_op(op)} raised {ex!r}; the injected error had hit '
                               f'{fmt_op(fault.fired_during)} earlier')
                    failed.append(op)
                    if op['kind'] in BINDERS:
                        maybe[store_name(op)] = POOL[op['model']]['key']
                    trace.append(f'{fmt_op(op)} -> {type(ex).__name__}')
                    continue
                apply_ack(ref, op)
            if fs.bypass:
                harness = f'unmodelled file-system mutation: {fs.bypass[:3]}'
        return root, ref, failed, k0, fs.nops, fs

    base_run = execute(None)
    if base_run is None:
        n_ops = 0
    else:
        root, ref, failed, k0, n_ops, fs0 = base_run
        h.update(repr([(o[0], o[1]) for o in fs0.journal]).encode())
    points = []
    if base_run is not None and n_ops > k0:
        cand = list(range(k0, n_ops))
        npts = len(cand) if cfg.get('crashpoints') == 'all' else min(7, len(cand))
        if cfg.get('crashpoints') != 'all':
            # two of the sampled points land on operations on the files all entries share (the
            # annotations file, the log, dataset copies and their index)
            shared = [i for (i, _p, kd, rp) in fs0.op_log
                      if k0 <= i < n_ops and kd in ('write', 'rename', 'creat.w', 'open.a') and
                      (os.path.basename(rp).startswith('annotations') or '/.datasets/' in rp or
                       rp.endswith('log.csv'))]
            for _ in range(min(2, len(shared))):
                k_ = shared.pop(tape.draw(len(shared), 'exc.shared'))
                if k_ in cand:
                    cand.remove(k_)
                    points.append(k_)
            # ... and one on the files of an entry itself (model file, results, marker)
            entry = [i for (i, _p, kd, rp) in fs0.op_log
                     if k0 <= i < n_ops and i in cand and '/.modeldb/' in rp and '/.datasets/' not in rp and
                     kd != 'mkdir']
            for _ in range(min(2, len(entry))):
                k_ = entry.pop(tape.draw(len(entry), 'exc.entry'))
                cand.remove(k_)
                points.append(k_)
        for _ in range(max(0, npts - len(points))):
            points.append(cand.pop(tape.draw(len(cand), 'exc.point')))
        points.sort()
    for k in points:
        # one injected exception in three is not an OSError ("exception ... between any two
        # file-system operations": an encoder, a validation, the allocator)
        other = OneShotFault.OTHER[tape.draw(len(OneShotFault.OTHER), 'exc.class')] \
            if tape.draw(2, 'exc.other') == 1 else None
        fault = OneShotFault(k, short=bool(tape.draw(2, 'exc.short')), other=other)
        out = execute(fault)
        if out is None:
            break
        root, ref_k, failed, _, _, fsk = out
        V.count('fault.oserror_point')
        if fault.fired is None:
            continue
        states.add(int(simfs.tree_digest(root)[:15], 16))
        where = f'{other.__name__ if other else "OSError"} injected at fs-op {k} [{fault.fired[0]} {fault.fired[1]}]; failed: ' \
                f'{[fmt_op(o) for o in failed]}'
        try:
            check_state(root, ref_k, list(failed), V, where, wl['models'])
        except Exception:
            import traceback
            harness = f'oracle error at {where}: {traceback.format_exc()[-1200:]}'
            break
    h.update(repr(sorted(states)).encode())
    h.update(repr([v['signature'] for v in V.violations]).encode())
    res = {'violations': V.violations, 'harness_error': harness, 'digest': h.hexdigest(), 'steps': n_ops,
           'switches': 0, 'outcome': 'ok', 'stats': V.stats, 'nontrivial': len(points) > 0,
           'tape': list(tape.out), 'states': list(states), 'sim_seconds': 0.0}
    if want_trace:
        res['workload'] = {'models': [POOL[i]['name'] for i in wl['models']],
                           'ops': [fmt_op(o) for o in wl['ops']]}
        res['journal'] = trace
        res['crash_points'] = [str(k) for k in points]
    return res


def run_scale(cfg, tape, want_trace=False):
    """Many datasets in one database (>= 10 stored copies): no faults; every acknowledged
    entry must keep its own dataset whatever is stored afterwards."""
    V = Verdicts()
    _MEMO_ON[0] = bool(cfg.get('memo', True)) and not want_trace
    root = fresh_root()
    _CLOCK[0] = SimClock(None)
    ref = Ref()
    nfill = 9 + tape.draw(4, 'scale.nfill')
    order = [NPOOL + j for j in tape.permutation(12, 'scale.order')[:nfill]]
    extra = [tape.draw(NPOOL, 'scale.extra') for _ in range(2)]
    seq = order[:]
    for x in extra:
        seq.insert(tape.draw(len(seq) + 1, 'scale.pos'), x)
    ctx = quiet(private_modules()[0]('ctx', ref=root, common_options=COMMON_OPTIONS))
    done = []
    for idx in seq:
        op = {'kind': 'store', 'model': idx}
        if name_conflict(ref, op) or idx in done:
            continue
        try:
            ctx.store_model_entry(POOL[idx]['me'])
        except Exception as ex:
            V.viol(f'fault-free-operation-failed/store/{type(ex).__name__}',
                   f'store({POOL[idx]["name"]}) as dataset number {len(done) + 1} raised {ex!r}')
            break
        apply_ack(ref, op)
        done.append(idx)
    if not V.violations:
        check_state(root, ref, None, V, f'after storing {len(done)} entries with {len(set(POOL[i]["dataset"] for i in done))} '
                                        f'different datasets (no fault)', done, do_progress=False)
    V.count('scale.entries', len(done))
    h = hashlib.sha256(repr(seq).encode() + repr([v['signature'] for v in V.violations]).encode())
    res = {'violations': V.violations, 'harness_error': None, 'digest': h.hexdigest(), 'steps': len(done),
           'switches': 0, 'outcome': 'ok', 'stats': V.stats, 'nontrivial': len(done) >= 10,
           'tape': list(tape.out), 'states': [], 'sim_seconds': 0.0}
    if want_trace:
        res['workload'] = {'models': [POOL[i]['name'] for i in seq], 'ops': [f'store({POOL[i]["name"]})' for i in seq]}
        res['journal'] = []
        res['crash_points'] = []
    return res


def run_keyrace(cfg, tape, want_trace=False):
    """The key under which an entry is stored and found again must not depend on what other
    threads of the process are hashing at the same time: several virtual threads compute
    ModelHash of pool entries (different datasets, the same DataFrame objects again and again)
    under seeded schedules that pre-empt at every line of workflows/hashing.py."""
    from sim.kernel import Kernel
    V = Verdicts()
    ModelHash = _P['ModelHash']
    h = hashlib.sha256()
    steps = switches = 0
    rounds = 60
    trace = []
    for rnd in range(rounds):
        policy = ('random', 'sticky', 'pct', 'pct')[tape.draw(4, 'policy')]
        k = Kernel(tape, policy=policy, max_steps=20000, pct_depth=1 + tape.draw(3, 'pct.depth'),
                   pct_span=120, log_events=False)
        got = []
        plan = []
        for t in range(2 + tape.draw(2, 'nthr')):
            # alternate between entries of the two datasets (POOL[0]: dataset A, POOL[4]: B ...)
            # (entries with small datasets: the hash loop over the rows is one yield per row)
            small = [e_['idx'] for e_ in POOL if e_['dataset'] == 'A' or e_['dataset'].startswith('F')]
            idxs = [small[tape.draw(len(small), 'key.model')] for _ in range(2 + tape.draw(2, 'nkeys'))]
            plan.append(idxs)

            def body(idxs=idxs, t=t):
                for idx in idxs:
                    e = POOL[idx]
                    via = tape.draw(3, 'key.via')
                    obj = e['model'] if via == 0 else (e['me'] if via == 1 else e['model'].dataset)
                    if via == 2:
                        from pharmpy.workflows.hashing import DatasetHash
                        got.append((t, idx, 'dataset', str(DatasetHash(obj))))
                    else:
                        got.append((t, idx, 'model', str(ModelHash(obj))))
                    k.yield_point('between-keys')
            k.spawn(body, f't{t + 1}', pid=1)
        from sim import linetrace
        try:
            with linetrace.LinePreemption(_P['hashing_codes'], lambda ln, k=k: k.yield_point('line', ln)):
                outcome = k.run()
        finally:
            k.shutdown()
        steps += k.steps
        switches += k.switches
        h.update(k.digest().encode())
        if outcome != 'done':
            return {'violations': [], 'harness_error': f'keyrace round ended with {outcome}', 'digest': h.hexdigest(),
                    'steps': steps, 'switches': switches, 'outcome': outcome, 'stats': V.stats,
                    'nontrivial': True, 'tape': list(tape.out), 'states': [], 'sim_seconds': 0.0}
        for (t, idx, kind, val) in got:
            e = POOL[idx]
            want = e['key'] if kind == 'model' else _DS_HASH[idx]
            if val != want:
                V.viol('key-depends-on-thread-schedule',
                       f'round {rnd}: thread t{t + 1} computed the {kind} hash of {e["name"]} as {val[:12]} while '
                       f'other threads were hashing; alone it is {want[:12]} (threads hashed {plan})')
        V.count('keyrace.rounds')
        V.count('keyrace.keys', len(got))
        if want_trace:
            trace.append({'round': rnd, 'policy': policy, 'plan': plan})
        if V.violations:
            break
    h.update(repr([v['signature'] for v in V.violations]).encode())
    res = {'violations': V.violations, 'harness_error': None, 'digest': h.hexdigest(), 'steps': steps,
           'switches': switches, 'outcome': 'ok', 'stats': V.stats, 'nontrivial': switches > 4,
           'tape': list(tape.out), 'states': [], 'sim_seconds': 0.0}
    if want_trace:
        res['workload'] = {'models': [], 'ops': [str(x) for x in trace]}
        res['journal'] = []
        res['crash_points'] = []
    return res


_DS_HASH = {}


def run_one(cfg, tape: Tape, want_trace=False):
    prepare()
    if PREPARE_VIOLATIONS:
        return {'violations': list(PREPARE_VIOLATIONS), 'harness_error': None,
                'digest': hashlib.sha256(b'prepare').hexdigest(), 'steps': 0, 'switches': 0,
                'outcome': 'golden-mismatch', 'stats': {}, 'nontrivial': False, 'tape': list(tape.out),
                'states': [], 'sim_seconds': 0.0}
    if cfg.get('mode') == 'scale':
        return run_scale(cfg, tape, want_trace)
    if cfg.get('mode') == 'keyrace':
        return run_keyrace(cfg, tape, want_trace)
    if cfg.get('mode') == 'excpoint':
        return run_excpoints(cfg, tape, want_trace)
    if cfg.get('mode') == 'insitu':
        from checks import c16_insitu
        return c16_insitu.run_one(cfg, tape, want_trace)
    return run_journal(cfg, tape, want_trace)


def fresh_root():
    # the dummy runner writes its run directory below the current directory: keep that outside
    # the simulated root (and outside /verif), emptied for every run
    cwd = os.path.join(scratch_root(), 'cwd')
    shutil.rmtree(cwd, ignore_errors=True)
    os.makedirs(cwd)
    os.chdir(cwd)
    root = os.path.join(scratch_root(), 'r')
    if os.path.isdir(root):
        simfs.wipe(root)
    else:
        os.makedirs(root)
    return root


def run_journal(cfg, tape, want_trace=False):
    V = Verdicts()
    _MEMO_ON[0] = bool(cfg.get('memo', True)) and not want_trace
    root = fresh_root()
    if cfg.get('scenario') == 'pending-later-txn':
        # fixed regression scenario for known finding F3
        wl = {'models': [0], 'ops': [{'kind': 'store', 'model': 0}, {'kind': 'metadata', 'model': 0}]}
    else:
        wl = gen_workload(tape)
    localfile = os.path.join(scratch_root(), 'local.lst')
    if not os.path.exists(localfile):
        with simfs._orig['open'](localfile, 'w') as fh:
            fh.write('some local file\n' * 40)
    h = hashlib.sha256()
    fs = simfs.SimFS(root, tape=tape, stats=V.stats)
    _CLOCK[0] = SimClock(tape, jumps=bool(cfg.get('clock_jumps')), stats=V.stats)
    ref = Ref()
    spans = []          # (op, start, end, acked, ref_after)
    executed = []
    harness = None
    Ctx1 = private_modules()[0]
    with fs, virtual_process(1, {1}):
        ctx = quiet(Ctx1('ctx', ref=root, common_options=COMMON_OPTIONS))
        k0 = len(fs.journal)
        for op in wl['ops']:
            if name_conflict(ref, op):
                continue
            start = len(fs.journal)
            try:
                out = do_op(ctx, op, localfile)
            except Exception as ex:
                V.viol(f'fault-free-operation-failed/{op["kind"]}/{type(ex).__name__}',
                       f'{fmt_op(op)} raised {ex!r} without any fault')
                break
            if out is not None and out[0] == 'retrieved':
                e = POOL[op['model']]
                for nm, ky in list(ref.names.items()):
                    if ky != e['key']:
                        continue
                    try:
                        if nm.startswith(SUB + '/'):
                            me = quiet(ctx.get_subcontext(SUB)).retrieve_model_entry(nm[len(SUB) + 1:])
                        else:
                            me = ctx.retrieve_model_entry(nm)
                        prob = content_problem(me, ky, ref.results_candidates(ky))
                    except Exception as ex:
                        prob = f'raises {ex!r}'
                    if prob:
                        V.viol('committed-entry-corrupted', f'fault-free: retrieve {nm!r}: {prob}')
            apply_ack(ref, op)
            executed.append(op)
            spans.append((op, start, len(fs.journal), ref.copy()))
        if fs.bypass:
            harness = f'unmodelled file-system mutation: {fs.bypass[:3]}'
    journal = fs.journal
    h.update(repr([(o[0], o[1], o[2] if len(o) > 2 and o[0] not in ('write', 'creat.w', 'creat.x', 'open.a',
                                                                      'open.r+', 'creat') else None)
                   for o in journal]).encode())
    rootb = root.encode()
    for o in journal:
        if o[0] == 'write':
            h.update(hashlib.sha256(o[3].replace(rootb, b'<ROOT>')).digest())
    V.count('workload_ops', len(executed))
    V.count('journal_ops', len(journal) - k0)
    states = set()
    # ---- final state (no crash): R2/R3/R4 on the complete history
    if not V.violations:
        check_state(root, ref, None, V, 'final state (no crash)', wl['models'])
    # ---- crash points
    points = []
    if not V.violations and spans:
        for k in range(k0 + 1, len(journal)):
            points.append((k, None))
            op = journal[k]
            if op[0] == 'write' and len(op[3]) > simfs.PAGE:
                for cut in range(simfs.PAGE, len(op[3]), simfs.PAGE):
                    points.append((k, cut))
        if cfg.get('crashpoints') != 'all':
            # sample ~8, always including the op after each marker/index/data/commit step
            important = []
            for k in range(k0 + 1, len(journal)):
                prev = journal[k - 1]
                cur = journal[k]
                if prev[0] in ('creat.x', 'unlink', 'symlink', 'rename') or prev[1].endswith('.datainfo') or \
                        '.hash' in prev[1] or (prev[0] == 'creat.w' and prev[1].endswith('annotations')) or \
                        (cur[0] == 'write' and ('/.datasets/' in cur[1] or
                                                os.path.basename(cur[1]).startswith('annotations'))) or \
                        (prev[0] == 'write' and '/.datasets/' in prev[1]):
                    # (also: inside / right after the writes of the shared files - dataset copies,
                    # the annotations file - whose half-written state later stores must survive)
                    important.append((k, None))
            picked = []
            for _ in range(4):
                if important:
                    picked.append(important.pop(tape.draw(len(important), 'crash.important')))
            rest = [p for p in points if p not in picked]
            for _ in range(4):
                if rest:
                    picked.append(rest.pop(tape.draw(len(rest), 'crash.point')))
            points = sorted(set(picked), key=lambda p: (p[0], p[1] or 0))
    ncrash = 0
    for (k, torn) in points:
        # which workload operation is in flight, what is acknowledged
        ref_k = Ref()
        inflight = None
        for (op, s, e_, r_after) in spans:
            if e_ <= k:
                ref_k = r_after
            elif s < k or (s == k and torn is not None):
                inflight = op
                break
            else:
                break
        simfs.replay_prefix(root, journal, k, torn)
        ncrash += 1
        states.add(int(simfs.tree_digest(root)[:15], 16))
        V.count('fault.crash_point')
        if torn is not None:
            V.count('fault.torn_write')
        if inflight is not None:
            V.count('probe.crash_inside_' + inflight['kind'])
            if inflight['kind'].startswith('store') and POOL[inflight['model']]['key'] in ref_k.keys_acked:
                V.count('probe.crash_in_later_txn_on_committed_key')
        where = f'crash before fs-op {k}' + (f' (write torn at {torn} bytes)' if torn else '') + \
            (f' inside {fmt_op(inflight)}' if inflight else ' between operations') + \
            f' [{journal[k][0]} {journal[k][1]}]'
        try:
            check_state(root, ref_k, inflight, V, where, wl['models'])
        except Exception as ex:    # the oracle itself must not crash
            import traceback
            harness = f'oracle error at {where}: {traceback.format_exc()[-1200:]}'
            del ex
            break
    h.update(repr(sorted(states)).encode())
    h.update(repr([v['signature'] for v in V.violations]).encode())
    res = {
        'violations': V.violations, 'harness_error': harness, 'digest': h.hexdigest(),
        'steps': len(journal), 'switches': 0, 'outcome': 'ok', 'stats': V.stats,
        'sim_seconds': _CLOCK[0].elapsed,
        'nontrivial': ncrash > 0 and len(executed) > 0, 'tape': list(tape.out),
        'states': list(states),
    }
    if want_trace:
        res['workload'] = {'models': [POOL[i]['name'] for i in wl['models']],
                           'ops': [fmt_op(o) for o in wl['ops']]}
        res['journal'] = [f'{i}: {o[0]} {o[1]}' + (f' @{o[2]} +{len(o[3])}B' if o[0] == 'write' else '')
                          for i, o in enumerate(journal)]
        res['crash_points'] = [f'{k}' + (f'/torn{t}' if t else '') for k, t in points]
    return res


def decode(cfg, tape_values):
    r = run_one(cfg, Tape(recorded=tape_values), want_trace=True)
    if cfg.get('mode') == 'insitu':
        return {'phases': r.get('phases'), 'violations': r['violations']}
    return {'workload': r.get('workload'), 'journal': r.get('journal'),
            'crash_points': r.get('crash_points'), 'violations': r['violations']}


def sample_of(cfg, r):
    rr = run_one(cfg, Tape(recorded=r['tape']), want_trace=True)
    if cfg.get('mode') == 'insitu':
        ph = (rr.get('phases') or [{}])[0]
        return {'config': cfg, 'program': ph.get('program'), 'history': ph.get('history'),
                'fs_ops_head': (ph.get('fs_ops') or [])[:60]}
    return {'config': cfg, 'workload': rr.get('workload'), 'journal_head': (rr.get('journal') or [])[:45],
            'crash_points': rr.get('crash_points')}


LEVEL = 'fault_enumeration'
RULE = ('each evaluation is one tape-generated workload (<=5 operations: store_model_entry / '
        'store_input / store_final / log_* / store_annotation / store_metadata / store_local_file / '
        'db.store_model / retrieves, over <=3 of 8 pool models, some sharing a dataset) executed once '
        'fault-free on the simulated disk with every mutating file-system operation journalled; the '
        'directory is then rebuilt for crash points k (quick: ~8 per workload biased to marker/index/'
        'commit steps; thorough: every prefix and every 4096-byte tear of the write in flight) and '
        'reopened with fresh context/database objects (R1-R4); distinct = distinct SHA-256 over the '
        'journal and the crash-state tree digests; non-trivial = at least one crash state was checked')
ASSUMPTIONS = [
    'process death, not power loss: completed system calls survive, the write in flight may be torn at '
    'a multiple of 4096 bytes',
    'equivalence of a retrieved entry is decided against a golden fault-free store+retrieve of the same '
    'pool entry (that this round trip preserves the model function is C02, not C16)',
    'Model.parse_model is memoised by the bytes of the control stream, dataset and datainfo it reads '
    '(one run in ten runs without the memo; replays never use it)',
    'names are never re-bound to different content (first binding wins by design)',
]
COMPONENTS = {
    'real': ['workflows.model_database.local_directory', 'workflows.contexts.local_directory + baseclass',
             'workflows.hashing.ModelHash', 'modeling.write_csv/write_model', 'NONMEM code generation and '
             'parser', 'DataInfo/ModelfitResults JSON', 'internals.fs.lock (real fcntl in journal mode)',
             'pandas csv/json writers on the real TextIOWrapper/BufferedWriter stack'],
    'stub': ['disk: tmpfs directory behind sim/simfs.py (journal, fault points, torn writes)',
             'crash/restart: journal-prefix replay + fresh objects'],
}


def budget(tier):
    if tier == 'thorough':
        return {'runs': 3200, 'chunk': 16, 'selftest_every': 50, 'xproc_runs': 6, 'run_timeout': 1500,
                'chunk_timeout': 3000, 'wall_limit': 4 * 3600, 'shrink_evals': 60, 'shrink_seconds': 600,
                'xproc_timeout': 2400}
    return {'runs': 400, 'chunk': 5, 'selftest_every': 24, 'xproc_runs': 4, 'run_timeout': 300,
            'chunk_timeout': 900, 'wall_limit': 1500, 'shrink_evals': 40, 'shrink_seconds': 240,
            'xproc_timeout': 900}
