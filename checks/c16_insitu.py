"""C16, in-situ mode: several virtual processes x threads use one context directory
concurrently under the seeded scheduler, with OSError injection and process death
at file-system operations, followed by restart phases (fresh objects in a fresh
virtual process) - crash -> restart -> more operations -> crash -> final check.

Everything of pharmpy is real; the lock module is the real lock.py on the
simulated kernel (one instance per virtual process), the disk is sim/simfs.py.
"""

from __future__ import annotations

import errno
import hashlib
import os
from contextlib import contextmanager

from checks import c16_store as base
from sim import modinst, simfs
from sim.kernel import BLOCKED, Kernel, SimAbort
from sim.simos import SimOS
from sim.simthreading import make_threading

POOL = base.POOL
NPOOL = base.NPOOL


class FsFaults:
    """Fault plan for file-system operations (decided from the tape, op by op)."""

    COMMIT_RELEVANT = ('creat.x', 'unlink', 'symlink', 'rename')

    def __init__(self, tape, kind, stats):
        self.tape = tape
        self.kind = kind              # none | oserror | death | mix
        self.stats = stats
        self.budget = 0 if kind == 'none' else (1 + tape.draw(2, 'fault.budget'))
        self.armed = True
        self.last_kind = {}
        self.enospc = set()
        self.deaths = 0
        self.hits = {}            # vthread name -> number of injected errors delivered to it
        self.kernel = None

    def _hit(self):
        vt = self.kernel.me() if self.kernel is not None else None
        if vt is not None:
            self.hits[vt.name] = self.hits.get(vt.name, 0) + 1

    def fs_op(self, fs, idx, pid, kind, path, nbytes):
        if pid in self.enospc and kind == 'write':
            self.enospc.discard(pid)
            self._hit()
            return ('oserror', errno.ENOSPC)
        prev = self.last_kind.get(pid)
        self.last_kind[pid] = (kind, os.path.basename(path))
        if not self.armed or self.budget <= 0 or pid == 0:
            return None
        hot = prev is not None and (prev[0] in self.COMMIT_RELEVANT or prev[1].endswith('.datainfo')
                                    or prev[1] == 'PENDING')
        if not self.tape.chance(6 if hot else 1, 24, 'fault.fire'):
            return None
        self.budget -= 1
        self._hit()
        k = self.kind
        if k == 'mix':
            k = ('oserror', 'death')[self.tape.draw(2, 'fault.kind')]
        if k == 'death':
            self.deaths += 1
            if kind == 'write' and nbytes > simfs.PAGE and self.tape.draw(2, 'fault.torn'):
                cuts = list(range(simfs.PAGE, nbytes, simfs.PAGE))
                return ('torn', cuts[self.tape.draw(len(cuts), 'fault.torn.at')])
            return ('die',)
        if self.tape.draw(4, 'fault.other') == 3:
            # an exception that is not an OSError, raised by the code between two operations
            from checks.c16_store import OneShotFault
            return ('raise', OneShotFault.OTHER[self.tape.draw(len(OneShotFault.OTHER), 'fault.class')])
        # an error the call can really return
        if kind == 'write':
            if self.tape.draw(2, 'fault.short') and nbytes > 1:
                n = 1 + self.tape.draw(nbytes - 1, 'fault.short.n')
                self.enospc.add(pid)
                return ('short', n)
            return ('oserror', (errno.ENOSPC, errno.EIO)[self.tape.draw(2, 'fault.errno')])
        if kind in ('creat', 'creat.x', 'creat.w', 'open.a', 'open.r+'):
            return ('oserror', (errno.EMFILE, errno.ENOSPC, errno.EACCES)[self.tape.draw(3, 'fault.errno')])
        if kind in ('mkdir', 'symlink'):
            return ('oserror', errno.ENOSPC)
        return ('oserror', errno.EIO)

    # lock syscalls: no faults here (C15 covers them)
    def syscall(self, *a, **k):
        return None

    def spurious_wakeup(self, k):
        return False


class History:
    def __init__(self, base=0):
        self.seq = 0
        self.base = base
        self.recs = []

    def invoke(self, vt, op):
        self.seq += 1
        rec = {'op': op, 'vt': vt.name, 'pid': vt.pid, 'inv': self.seq, 'ret': None, 'status': 'inflight',
               'exc': None}
        self.recs.append(rec)
        return rec

    def ret(self, rec, status, exc=None):
        self.seq += 1
        rec['ret'] = self.seq
        rec['status'] = status
        rec['exc'] = exc


def gen_program(tape, phase, special, force_focus=None):
    """Programs for the concurrent phase: <=2 processes x <=2 threads, <=3 ops each."""
    first = tape.draw(NPOOL, 'pool.first')
    chosen = [first]
    same = [e['idx'] for e in POOL[:NPOOL] if e['dataset'] == POOL[first]['dataset'] and e['idx'] != first]
    other = [e['idx'] for e in POOL[:NPOOL] if e['idx'] != first]
    nmod = 1 + tape.draw(3, 'nmodels')
    twins = [e['idx'] for e in POOL[:NPOOL] if e['key'] == POOL[first]['key'] and e['idx'] != first]
    if twins and nmod > 1 and tape.draw(2, 'pool.twin'):
        chosen.append(twins[0])
    while len(chosen) < nmod:
        src = same if (tape.draw(3, 'pool.share') != 0 and same) else other
        src = [x for x in src if x not in chosen]
        if not src:
            break
        chosen.append(src[tape.draw(len(src), 'pool.pick')])
    nproc = 1 + tape.draw(2, 'nproc')
    # half of the programs are general ones; 3/5: one hot key; 4: log-heavy; 6: dataset churn;
    # 7: fresh bare database
    focus = (0, 1, 2, 0, 1, 3, 5, 4, 6, 7)[tape.draw(10, 'focus')]
    if focus == 5:
        focus = 3
    if force_focus is not None:
        focus = force_focus
    if focus == 7:
        # first use of a fresh, bare database by several threads and processes, each operation
        # through a database handle of its own
        threads = []
        for p in range(2):
            for t in range(2 if p == 0 else 1 + tape.draw(2, 'nthr')):
                ops = [{'kind': 'db2_store' if (j == 0 or tape.draw(3, 'db2.kind')) else 'db2_retrieve',
                        'model': chosen[tape.draw(len(chosen), 'op.model')],
                        'rel': bool(tape.draw(2, 'db2.rel'))}
                       for j in range(1 + tape.draw(2, 'nops'))]
                threads.append({'pid': p + 1, 'name': f'p{p + 1}.t{t + 1}', 'ops': ops})
        return {'models': chosen, 'threads': threads, 'nproc': 2, 'focus': 7, 'prestore': False}
    if focus == 6:
        # dataset churn: two processes take turns storing models that each bring a NEW dataset
        # (whatever a process remembers about the dataset directory goes stale in between)
        fill = [NPOOL + j for j in tape.permutation(len(POOL) - NPOOL, 'churn.models')[:5]]
        threads = []
        for p in range(2):
            ops = [{'kind': 'store', 'model': fill[2 * i + p]} for i in range(2)]
            if p == 0:
                ops.append({'kind': 'store', 'model': fill[4]})
            threads.append({'pid': p + 1, 'name': f'p{p + 1}.t1', 'ops': ops})
        return {'models': fill, 'threads': threads, 'nproc': 2, 'focus': 6, 'prestore': False}
    if focus == 3:
        # hot key: transactions and readers of one entry (biased to one that carries results)
        hot = [e['idx'] for e in POOL[:NPOOL] if e['has_results']]
        first = hot[tape.draw(len(hot), 'hot.model')] if tape.draw(3, 'hot.results') else first
        chosen = [first]
    threads = []
    uid = [0]
    for p in range(nproc):
        nthr = 1 + tape.draw(2, 'nthr')
        if focus == 3 and nproc == 1:
            nthr = 2
        for t in range(nthr):
            nops = 1 + tape.draw(3, 'nops')
            ops = []
            for _ in range(nops):
                kind = tape.weighted([(12, 'store'), (2, 'store_input'), (1, 'store_final'), (3, 'log'),
                                      (2, 'annotate'), (3, 'metadata'), (2, 'localfile'),
                                      (5, 'retrieve'), (3, 'retrieve_name'), (1, 'db_store_model'),
                                      (1, 'retrieve_log'), (2, 'dummy_run'), (2, 'nmfiles'),
                                      (1, 'db_store_entry')], 'op')
                m = chosen[tape.draw(len(chosen), 'op.model')]
                if kind == 'nmfiles':
                    ok = [x for x in chosen if x in base.NM_OK]
                    if ok:
                        m = ok[tape.draw(len(ok), 'op.nm')]
                    else:
                        kind = 'localfile'
                uid[0] += 1
                if focus == 4 and tape.draw(10, 'focus.log') < 7:
                    kind = 'log'
                if focus == 3:
                    kind = tape.weighted([(4, 'store'), (3, 'metadata'), (2, 'localfile'), (5, 'retrieve'),
                                          (3, 'retrieve_name'), (1, 'store_input'), (2, 'dummy_run')],
                                         'hot.op')
                if kind in ('store_input', 'store_final'):
                    nm = 'input' if kind == 'store_input' else 'final'
                    m = special.setdefault(nm, m)
                if kind == 'annotate' and (p, t) != (0, 0):
                    kind = 'retrieve'
                if kind == 'log':
                    sev = ('info', 'warning', 'error')[tape.draw(3, 'log.sev')]
                    msg = base.MESSAGES[tape.draw(len(base.MESSAGES), 'log.msg')]
                    if focus == 4 and tape.draw(5, 'log.long') < 2:
                        msg = base.MESSAGES[-1]          # > 8 KiB: two raw writes
                    ops.append({'kind': 'log', 'sev': sev, 'msg': f'{msg} #{phase}.{uid[0]}',
                                'model': m if tape.draw(3, 'log.model') == 2 else None,
                                'sub': tape.draw(5, 'log.sub') == 4})
                elif kind == 'annotate':
                    ops.append({'kind': 'annotate', 'model': m,
                                'text': base.ANNOTATIONS[tape.draw(len(base.ANNOTATIONS), 'annot.text')]})
                elif kind == 'store' and tape.draw(5, 'store.sub') == 4:
                    # through a subcontext object created by this thread (a new context and
                    # database handle while other threads are inside transactions)
                    ops.append({'kind': 'store', 'model': m, 'sub': True})
                else:
                    ops.append({'kind': kind, 'model': m})
            threads.append({'pid': p + 1, 'name': f'p{p + 1}.t{t + 1}', 'ops': ops})
    return {'models': chosen, 'threads': threads, 'nproc': nproc, 'focus': focus,
            'prestore': focus == 3 and tape.draw(3, 'hot.prestore') != 0}


def run_one(cfg, tape, want_trace=False):
    V = base.Verdicts()
    stats = V.stats
    base._MEMO_ON[0] = bool(cfg.get('memo', True)) and not want_trace
    root = base.fresh_root()
    localfile = os.path.join(base.scratch_root(), 'local.lst')
    if not os.path.exists(localfile):
        with simfs._orig['open'](localfile, 'w') as fh:
            fh.write('some local file\n' * 40)
    base._CLOCK[0] = base.SimClock(tape, jumps=bool(cfg.get('clock_jumps')), stats=stats)
    policy = ('random', 'sticky', 'pct', 'rr')[tape.draw(4, 'policy')]
    h = hashlib.sha256()
    ref = base.Ref()
    failed_ops = []           # killed or failed operations of all phases
    harness = None
    total_steps = 0
    total_switches = 0
    all_models = []
    nphases = 1 + (1 if cfg.get('fault') in ('death', 'mix') else tape.draw(2, 'phases'))
    pid_base = 0
    traces = []
    special = {}       # 'input'/'final' -> model idx: bound to one content for the whole run
    dbmod, ctxmod = base._P['dbmod'], base._P['ctxmod']
    saved_locks = (dbmod.path_lock, ctxmod.path_lock)
    # the context directory is created fault-free (context creation is not a store)
    base.quiet(base._P['Ctx']('ctx', ref=root, common_options=base.COMMON_OPTIONS))
    try:
        for phase in range(nphases):
            prog = gen_program(tape, phase, special, cfg.get('focus'))
            for m in prog['models']:
                if m not in all_models:
                    all_models.append(m)
            # one class of runs pre-empts at every line of workflows/hashing.py too: two threads of
            # one process computing database keys at the same time (the key must not depend on
            # how they interleave)
            line_hashing = bool(cfg.get('line_hashing'))
            k = Kernel(tape, policy=policy, max_steps=60000 if line_hashing else 20000,
                       pct_depth=1 + tape.draw(3, 'pct.depth'), pct_span=600, log_events=want_trace)
            faults = FsFaults(tape, cfg.get('fault', 'none') if phase == 0 or cfg.get('fault') == 'mix'
                              else 'none', stats)
            faults.kernel = k
            def create_lock_file(path):
                fd = simfs._orig['os_open'](path, os.O_CREAT | os.O_WRONLY, 0o666)
                os.close(fd)

            simos = SimOS(k, exists=os.path.exists, create=create_lock_file, edeadlk=True, faults=faults,
                          stats=stats)
            fs = simfs.SimFS(root, kernel=k, tape=tape, faults=faults, stats=stats,
                             pid_of=lambda k=k: (k.me().pid if k.me() is not None else 0))
            mods = {}
            ctxs = {}
            hist = History(base=(phase + 1) * 1_000_000)
            holds = []

            def on_death(pid, k=k, simos=simos, hist=hist):
                alive.discard(pid)
                simos.exit_process(pid)
                for r in hist.recs:
                    if r['pid'] == pid and r['status'] == 'inflight':
                        r['status'] = 'killed'
                holds[:] = [x for x in holds if x[0].pid != pid]
                k.kill_process(pid)

            fs.on_death = on_death
            fs.lock_close_hook = simos.foreign_close

            def die_hook():
                raise SimAbort()

            @contextmanager
            def sim_path_lock(path, shared=False, blocking=True, reentrant=False, k=k, mods=mods):
                vt = k.me()
                if vt is None:
                    with saved_locks[0](path, shared=shared, blocking=blocking, reentrant=reentrant) as fd:
                        yield fd
                    return
                inode = os.path.normpath(os.path.join(os.getcwd(), path))      # the file, not its spelling
                with mods[vt.pid].path_lock(path, shared=shared, blocking=blocking,
                                            reentrant=reentrant) as fd:
                    if not vt.killed:
                        for (o, i, sh) in holds:
                            if i == inode and o is not vt and (not shared or not sh):
                                V.viol('lock-exclusion',
                                       f'{vt.name} holds {os.path.basename(inode)} '
                                       f'{"shared" if shared else "exclusively"} together with {o.name}')
                        entry = (vt, inode, shared)
                        holds.append(entry)
                    try:
                        yield fd
                    finally:
                        if not vt.killed and entry in holds:
                            holds.remove(entry)

            CtxOf = {}
            alive = set()
            def kernel_agrees(k=k, simos=simos):
                # at every scheduler step: a thread inside a locked section is backed by a record
                # lock of its process in the (simulated) kernel - "a held lock is never released
                # by unrelated activity", e.g. by somebody else's open+close of the lock file
                for (vt, inode, shared) in holds:
                    if vt.killed or vt.pid in k.dead_pids:
                        continue
                    lk = simos.locks.get(inode, {}).get(vt.pid)
                    if lk is None or (not shared and lk != 'X'):
                        V.viol('lock-exclusion',
                               f'{vt.name} is inside a section locked '
                               f'{"shared" if shared else "exclusively"} on {os.path.basename(inode)} '
                               f'but its process holds {lk} in the kernel (released by unrelated activity)')
                        k.stop = True
                        return

            k.on_step = kernel_agrees
            for tspec in prog['threads']:
                pid = pid_base + tspec['pid']
                tspec['rpid'] = pid
                if pid not in mods:
                    thr = make_threading(k, faults=faults, stats=stats)
                    mods[pid] = modinst.load_lock_module(thr, simos.make_fcntl(pid), simos.make_os(pid))
                    ctxs[pid] = None
                    # module-level state of the database/context modules is per process too
                    CtxOf[pid] = base.private_modules(path_lock=sim_path_lock)[0]
                    alive.add(pid)

            def make_client(tspec, k=k, hist=hist, ctxs=ctxs, faults=faults):
                def body():
                    vt = k.me()
                    pid = tspec['rpid']
                    ctx = ctxs[pid]
                    for op in tspec['ops']:
                        if vt.killed:
                            raise SimAbort()
                        rec = hist.invoke(vt, op)
                        rec['hits0'] = faults.hits.get(vt.name, 0)
                        try:
                            if op['kind'] == 'retrieve_name':
                                out = ('entry', ctx.retrieve_model_entry(POOL[op['model']]['name']))
                            else:
                                out = base.do_op(ctx, op, localfile)
                            if op['kind'] == 'retrieve':
                                out = _retrieve(ctx, op)
                        except simfs.ProcessDied:
                            raise SimAbort()
                        except Exception as ex:
                            if vt.killed:
                                raise SimAbort()
                            hist.ret(rec, 'error', ex)
                            rec['hit'] = faults.hits.get(vt.name, 0) > rec['hits0']
                        else:
                            if vt.killed:
                                raise SimAbort()
                            hist.ret(rec, 'ok')
                            rec['out'] = out
                return body

            def _retrieve(ctx, op):
                e = POOL[op['model']]
                me = ctx.model_database.retrieve_model_entry(base._P['ModelHash'](e['key']))
                return ('entry', me)

            dbmod.path_lock = sim_path_lock
            ctxmod.path_lock = sim_path_lock
            fs.install()
            try:
                for pid in list(ctxs):
                    # fresh objects in each (virtual) process; opening the context is not
                    # part of the workload (no faults, no yields: called from the main thread)
                    ctxs[pid] = base.quiet(CtxOf[pid]('ctx', ref=root))
                if prog.get('prestore'):
                    # hot key already committed before the concurrent phase starts: every
                    # concurrent read of it must succeed, whatever later transactions do
                    e0 = POOL[prog['models'][0]]
                    op0 = {'kind': 'store', 'model': e0['idx']}
                    if not base.name_conflict(ref, op0):
                        ctx0 = next(iter(ctxs.values()))
                        try:
                            ctx0.store_model_entry(e0['me'])
                            base.apply_ack(ref, op0)
                            stats['probe.hot_key_prestored'] = stats.get('probe.hot_key_prestored', 0) + 1
                        except Exception as ex0:
                            if isinstance(ex0, base._P['Pending']) and any(
                                    f.get('model') is not None and POOL[f['model']]['key'] == e0['key']
                                    for f in failed_ops):
                                failed_ops.append(op0)     # PENDING left by an earlier phase (F3)
                            else:
                                V.viol(f'operation-failed-without-fault/{type(ex0).__name__}',
                                       f'fault-free store of {e0["name"]} before phase {phase} raised {ex0!r}')
                for tspec in prog['threads']:
                    k.spawn(make_client(tspec), tspec['name'], pid=tspec['rpid'])
                from contextlib import nullcontext
                from sim import linetrace
                lines = linetrace.LinePreemption(
                    base._P['hashing_codes'], lambda ln, k=k: k.yield_point('line', ln)) \
                    if line_hashing else nullcontext()
                with base.virtual_process(lambda k=k: (k.me().pid if k.me() is not None else None), alive), \
                        lines:
                    outcome = k.run()
            finally:
                fs.uninstall()
                dbmod.path_lock, ctxmod.path_lock = saved_locks
                try:
                    k.shutdown()
                except Exception as ex:   # a vthread that does not unwind
                    harness = f'shutdown: {ex!r}'
            total_steps += k.steps
            total_switches += k.switches
            h.update(k.digest().encode())
            if want_trace:
                traces.append({'phase': phase, 'program': {t['name']: [base.fmt_op(o) for o in t['ops']]
                                                          for t in prog['threads']},
                               'fs_ops': [f'{i}:p{p}:{kd} {rp}' for (i, p, kd, rp) in fs.op_log][:300],
                               'history': [f"{r['inv']}-{r['ret']} {r['vt']} {base.fmt_op(r['op'])} "
                                           f"{r['status']} {r['exc']!r}" for r in hist.recs]})
            if outcome == 'cap':
                harness = 'step cap hit'
            if fs.bypass:
                harness = f'unmodelled file-system mutation: {fs.bypass[:3]}'
            for t in k.threads:
                if t.exc is not None:
                    harness = f'uncaught exception in {t.name}: {t.exc!r}'
            if outcome == 'quiescent':
                parked = [t for t in k.threads if t.state == BLOCKED and not t.killed]
                if parked:
                    V.viol('deadlock', 'all clients parked: ' +
                           ', '.join(f'{t.name}->{t.blocked_kind}' for t in parked))
            if harness:
                break
            # ---- history checks for this phase
            _check_history(hist, ref, failed_ops, V, stats, simos, k)
            stats['fault.death'] = stats.get('fault.death', 0)
            pid_base += 10
            # ---- restart: fresh process, fresh objects, fault-free inspection
            where = f'after phase {phase} ({len(failed_ops)} interrupted/failed operations, ' \
                    f'{len(k.dead_pids)} dead processes)'
            base.check_state(root, ref, list(failed_ops), V, where, all_models,
                             do_progress=(phase == nphases - 1))
            if any('later-transaction-in-flight-on-same-key' not in v['signature'] for v in V.violations):
                break
    finally:
        dbmod.path_lock, ctxmod.path_lock = saved_locks
    h.update(repr([v['signature'] for v in V.violations]).encode())
    h.update(simfs.tree_digest(root).encode())
    res = {
        'violations': V.violations, 'harness_error': harness, 'digest': h.hexdigest(),
        'steps': total_steps, 'switches': total_switches, 'outcome': 'ok', 'stats': stats,
        'nontrivial': total_switches > 2, 'tape': list(tape.out),
        'sim_seconds': base._CLOCK[0].elapsed, 'states': [int(simfs.tree_digest(root)[:15], 16)],
    }
    if want_trace:
        res['phases'] = traces
    return res


MUTATING = base.TXN_KINDS + ('annotate', 'log', 'db2_store')


def _justify_error(r, recs, failed_ops, simos, V, stats):
    """An operation may fail because the environment failed it (an injected error reached its
    thread, the kernel refused a lock with EDEADLK) or because an interrupted transaction of
    the same key left its PENDING marker (finding F3).  Any other failure of a mutating
    operation means that storing does not "still work"."""
    op, ex = r['op'], r['exc']
    if op['kind'] not in MUTATING:
        return
    if r.get('hit'):
        return
    if isinstance(ex, OSError) and any(pe[1] == r['pid'] and pe[2] == ex.errno for pe in simos.produced_errors):
        return
    key = POOL[op['model']]['key'] if op.get('model') is not None else None
    if isinstance(ex, base._P['Pending']) and key is not None:
        if any(f.get('model') is not None and POOL[f['model']]['key'] == key for f in failed_ops) or any(
                x is not r and x['status'] in ('error', 'killed') and x['inv'] < r['ret'] and
                x['op'].get('model') is not None and POOL[x['op']['model']]['key'] == key and
                x['op']['kind'] in base.TXN_KINDS + ('db2_store',) for x in recs):
            return
    if isinstance(ex, FileExistsError) and op['kind'] in base.BINDERS:
        nm = base.store_name(op)
        if any(x is not r and x['op']['kind'] in base.BINDERS and
               base.store_name(x['op']) == nm and x['inv'] < r['ret'] and
               (x['ret'] is None or x['ret'] > r['inv']) for x in recs):
            # store_key: exists() then symlink() without a lock - two concurrent stores of the
            # same name race and one gets FileExistsError.  The statement does not promise that
            # concurrent stores of one name both succeed: observed (DESIGN.md O8), not flagged.
            stats['observed.store_key_race_FileExistsError'] = \
                stats.get('observed.store_key_race_FileExistsError', 0) + 1
            return
    if isinstance(ex, FileExistsError) and op.get('sub') and any(
            x is not r and x['op'].get('sub') and x['inv'] < r['ret'] and
            (x['ret'] is None or x['ret'] > r['inv']) for x in recs):
        # two threads/processes create the same subcontext at the same time: _init_path tests
        # is_dir() and then mkdir()s without a lock, one of them gets FileExistsError.  Like O8
        # this is outside the statement (it speaks of stores, not of creating contexts):
        # observed (DESIGN.md O9), not flagged.
        stats['observed.subcontext_creation_race_FileExistsError'] = \
            stats.get('observed.subcontext_creation_race_FileExistsError', 0) + 1
        return
    V.viol(f'operation-failed-without-fault/{op["kind"]}/{type(ex).__name__}',
           f'{r["vt"]}: {base.fmt_op(op)} raised {ex!r} although no fault reached it')


def _check_history(hist, ref, failed_ops, V, stats, simos, k):
    """Update the reference model from the recorded history and check what readers saw."""
    recs = sorted(hist.recs, key=lambda r: r['inv'])
    # acknowledged operations in order of their return
    acked = sorted([r for r in recs if r['status'] == 'ok'], key=lambda r: r['ret'])
    # what readers saw (R1 under concurrency): any successful read returns golden content
    for r in recs:
        op = r['op']
        if r['status'] == 'ok' and op['kind'] == 'retrieve':
            e = POOL[op['model']]
            me = r['out'][1]
            # "visible means complete": if every store of this key that had started before
            # this read returned carried results, a successful read must show them
            related = [x for x in recs if x['inv'] < r['ret'] and x['op'].get('model') is not None and
                       POOL[x['op']['model']]['key'] == e['key'] and
                       x['op']['kind'] in base.KEY_COMMITTERS + ('nmfiles',)]
            # acceptable results: those of any store of this key that had started before the
            # read returned, or of the latest ones acknowledged in earlier phases; "no results"
            # only if some store without results was among them / nothing carried results
            acc = {base.op_results_json(x['op']) for x in related} - {None}
            earlier = e['key'] in ref.keys_acked or bool(ref.res_writes.get(e['key']))
            if earlier:
                acc |= ref.results_candidates(e['key'])
            if not acc or any(base.op_may_commit_without_results(x['op']) for x in related):
                acc.add(None)
            for f in failed_ops:
                if f.get('model') is not None and POOL[f['model']]['key'] == e['key'] and \
                        base.op_results_json(f) is not None:
                    acc.add(base.op_results_json(f))
            prob = base.content_problem(me, e['key'], acc)
            if prob is not None:
                V.viol('partial-or-wrong-entry-visible',
                       f'concurrent retrieve of {e["name"]} by {r["vt"]} succeeded but {prob}')
            stats['r1.concurrent_read_ok'] = stats.get('r1.concurrent_read_ok', 0) + 1
        elif r['status'] == 'error' and op['kind'] == 'retrieve':
            # a read that began after an acknowledged store of the key returned must succeed,
            # unless a later transaction on that key failed or was killed (known finding F3)
            e = POOL[op['model']]
            before = [a for a in acked if a['ret'] < r['inv'] and a['op'].get('model') is not None and
                      POOL[a['op']['model']]['key'] == e['key'] and
                      a['op']['kind'] in base.KEY_COMMITTERS]
            prior_acked = e['key'] in ref.keys_acked or bool(before)
            if prior_acked:
                bad_txn = [x for x in recs if x['status'] in ('error', 'killed') and
                           x['op'].get('model') is not None and
                           POOL[x['op']['model']]['key'] == e['key'] and
                           x['inv'] < r['ret'] and
                           x['op']['kind'] in base.TXN_KINDS]
                if isinstance(r['exc'], base._P['Pending']) and (bad_txn or any(
                        f.get('model') is not None and POOL[f['model']]['key'] == e['key']
                        for f in failed_ops)):
                    V.viol('committed-unretrievable/PendingTransactionError/'
                           'later-transaction-in-flight-on-same-key',
                           f'{r["vt"]}: {e["name"]} was committed; an interrupted transaction on the '
                           f'same key left PENDING and the entry is refused')
                elif r.get('hit') or isinstance(r['exc'], OSError) and (
                        r['exc'].errno in (errno.ENOSPC, errno.EIO, errno.EMFILE, errno.EACCES) or
                        any(pe[2] == r['exc'].errno for pe in simos.produced_errors)):
                    # the read itself hit an injected error, or the simulated kernel refused
                    # the lock with EDEADLK (Linux's owner-level cycle detection gives false
                    # positives with threads): an environment fault, the call is unacknowledged
                    stats['observed.read_refused_by_environment'] = \
                        stats.get('observed.read_refused_by_environment', 0) + 1
                else:
                    V.viol(f'committed-unretrievable/{type(r["exc"]).__name__}',
                           f'{r["vt"]}: retrieve of committed {e["name"]} raised {r["exc"]!r}')
    # reads of the bare database: whatever is visible is complete
    for r in recs:
        op = r['op']
        if op['kind'] != 'db2_retrieve':
            continue
        e = POOL[op['model']]
        stores = [x for x in recs if x['op']['kind'] == 'db2_store' and x['op']['model'] is not None and
                  POOL[x['op']['model']]['key'] == e['key']]
        if r['status'] == 'ok':
            acc = {base.op_results_json({'kind': 'store', 'model': x['op']['model']})
                   for x in stores if x['inv'] < r['ret']} | set(ref.db2.get(e['key'], set()))
            prob = base.content_problem(r['out'][1], e['key'], acc or {None})
            if prob is not None or not acc:
                V.viol('partial-or-wrong-entry-visible',
                       f'{r["vt"]}: concurrent read of {e["name"]} from the bare database succeeded but '
                       f'{prob or "nobody had started storing it"}')
        elif r['status'] == 'error' and (e['key'] in ref.db2 or any(
                x['status'] == 'ok' and x['ret'] < r['inv'] for x in stores)):
            bad = any(x['status'] in ('error', 'killed') for x in stores)
            ex = r['exc']
            if not (isinstance(ex, base._P['Pending']) and bad) and not r.get('hit') and not (
                    isinstance(ex, OSError) and any(pe[2] == ex.errno for pe in simos.produced_errors)):
                V.viol(f'committed-unretrievable/{type(ex).__name__}',
                       f'{r["vt"]}: read of {e["name"]}, committed to the bare database, raised {ex!r}')
    # concurrent retrieve_log: every row was logged by somebody, verbatim, at most once
    interrupted_logs = any(x['op']['kind'] == 'log' and x['status'] in ('error', 'killed') for x in recs) \
        or any(f['kind'] == 'log' for f in failed_ops)
    for r in recs:
        if r['op']['kind'] != 'retrieve_log' or r['status'] != 'ok' or interrupted_logs:
            continue
        df = r['out'][1]
        rows = list(zip(df['severity'].tolist(), df['path'].tolist(), df['message'].tolist()))
        allowed = set(tuple(x) for x in ref.log)
        for x in recs:
            if x['op']['kind'] == 'log' and x['inv'] < r['ret']:
                allowed.add((x['op']['sev'], base.log_path_of(x['op']), x['op']['msg']))
        must = [(x['op']['sev'], base.log_path_of(x['op']), x['op']['msg']) for x in recs
                if x['op']['kind'] == 'log' and x['status'] == 'ok' and x['ret'] < r['inv']]
        bad = [row for row in rows if row not in allowed]
        if bad or len(set(rows)) != len(rows):
            V.viol('log-message-not-verbatim',
                   f'concurrent retrieve_log by {r["vt"]}: row {bad[:1] or "duplicated"} was never logged')
        elif any(m not in rows for m in must) or any(tuple(m) not in rows for m in ref.log):
            V.viol('log-row-count', f'concurrent retrieve_log by {r["vt"]} misses an acknowledged message')
        else:
            stats['r3.concurrent_log_ok'] = stats.get('r3.concurrent_log_ok', 0) + 1
    # readers by name: a name whose store was acknowledged before the read began must resolve
    for r in recs:
        op = r['op']
        if op['kind'] != 'retrieve_name' or r['status'] not in ('ok', 'error'):
            continue
        e = POOL[op['model']]
        name = e['name']
        writers = [x for x in recs if x['op'].get('model') is not None and
                   x['op']['kind'] in ('store', 'annotate', 'dummy_run') and not x['op'].get('sub') and
                   POOL[x['op']['model']]['name'] == name]
        bound_before = (ref.names.get(name) == e['key']) or any(
            x['status'] == 'ok' and x['ret'] < r['inv'] and x['op']['kind'] in ('store', 'dummy_run')
            for x in writers)
        if r['status'] == 'ok':
            me = r['out'][1]
            related = [x for x in recs if x['inv'] < r['ret'] and x['op'].get('model') is not None and
                       POOL[x['op']['model']]['key'] == e['key'] and
                       x['op']['kind'] in base.KEY_COMMITTERS + ('nmfiles',)]
            acc = {base.op_results_json(x['op']) for x in related} - {None}
            if e['key'] in ref.keys_acked or ref.res_writes.get(e['key']):
                acc |= ref.results_candidates(e['key'])
            if not acc or any(base.op_may_commit_without_results(x['op']) for x in related):
                acc.add(None)
            for f in failed_ops:
                if f.get('model') is not None and POOL[f['model']]['key'] == e['key'] and \
                        base.op_results_json(f) is not None:
                    acc.add(base.op_results_json(f))
            prob = base.content_problem(me, e['key'], acc)
            descs = set(ref.annotation_candidates(name))
            for x in writers:
                if x['inv'] < r['ret']:
                    descs.add(x['op']['text'] if x['op']['kind'] == 'annotate' else e['desc'])
            for f in failed_ops:
                if f.get('model') is not None and f['kind'] in ('store', 'annotate', 'dummy_run') and \
                        POOL[f['model']]['name'] == name:
                    descs.add(f['text'] if f['kind'] == 'annotate' else POOL[f['model']]['desc'])
            if prob is None and me.model.name != name:
                prob = f'name is {me.model.name!r}'
            if prob is None and me.model.description not in descs:
                prob = f'description is {me.model.description!r}, written so far: {sorted(descs)}'
            if prob is not None:
                V.viol('partial-or-wrong-entry-visible',
                       f'concurrent retrieve by name {name!r} by {r["vt"]} succeeded but {prob}')
            stats['r1.concurrent_read_by_name_ok'] = stats.get('r1.concurrent_read_by_name_ok', 0) + 1
        elif bound_before:
            ex = r['exc']
            bad_txn = any(x['status'] in ('error', 'killed') and x['op'].get('model') is not None and
                          POOL[x['op']['model']]['key'] == e['key'] and
                          x['op']['kind'] in base.TXN_KINDS for x in recs) or any(
                f.get('model') is not None and POOL[f['model']]['key'] == e['key'] for f in failed_ops)
            ann_failed = any(x['status'] in ('error', 'killed') for x in writers) or any(
                f.get('model') is not None and f['kind'] in ('annotate',) + base.BINDERS
                for f in failed_ops)
            if isinstance(ex, base._P['Pending']) and bad_txn:
                V.viol('committed-unretrievable/PendingTransactionError/'
                       'later-transaction-in-flight-on-same-key',
                       f'{r["vt"]}: name {name!r} was committed; an interrupted transaction on the same '
                       f'key left PENDING and the entry is refused')
            elif r.get('hit') or isinstance(ex, OSError) and (
                    ex.errno in (errno.ENOSPC, errno.EIO, errno.EMFILE, errno.EACCES) or
                    any(pe[2] == ex.errno for pe in simos.produced_errors)):
                stats['observed.read_refused_by_environment'] = \
                    stats.get('observed.read_refused_by_environment', 0) + 1
            elif isinstance(ex, KeyError) and 'annotation' in str(ex).lower() and ann_failed:
                pass    # its own annotation write was interrupted: covered by the restart check
            else:
                V.viol(f'committed-unretrievable/{type(ex).__name__}',
                       f'{r["vt"]}: retrieve by name of committed {name!r} raised {ex!r}')
    for r in acked:
        r['op']['_times'] = (hist.base + r['inv'], hist.base + r['ret'])
        base.apply_ack(ref, r['op'])
    for r in recs:
        if r['status'] in ('error', 'killed', 'inflight'):
            if r['op']['kind'] not in base.READS:
                failed_ops.append(r['op'])
            if r['status'] == 'error':
                stats['op.failed_with_' + type(r['exc']).__name__] = \
                    stats.get('op.failed_with_' + type(r['exc']).__name__, 0) + 1
                _justify_error(r, recs, failed_ops, simos, V, stats)
                if not isinstance(r['exc'], (OSError, base._P['Pending'], KeyError)):
                    # an operation may fail under an injected error, but with the error it was given
                    stats['observed.secondary_error_' + type(r['exc']).__name__] = \
                        stats.get('observed.secondary_error_' + type(r['exc']).__name__, 0) + 1
    # R5: nothing locked, no descriptor open in surviving processes
    for pid, table in simos.fds.items():
        if pid not in k.dead_pids and table:
            V.viol('leak/fd', f'process {pid} still has lock descriptors {sorted(table)} open')
    for inode, held in simos.locks.items():
        live = {p: m for p, m in held.items() if p not in k.dead_pids}
        if live:
            V.viol('leak/record-lock', f'{os.path.basename(inode)} still locked by {live}')
