"""C15 - path locks: reader/writer exclusion, no lost wake-up, clean bookkeeping.

System under simulation: the real ``pharmpy/internals/fs/lock.py`` of the working
tree, one module instance per virtual process, on simulated threading primitives
and a simulated kernel (fd table + POSIX record locks).  See DESIGN.md 5.1.
"""

from __future__ import annotations

import errno
import hashlib
import os

from sim import modinst
from sim.kernel import BLOCKED, DONE, Kernel, SimAbort
from sim.simos import SimOS
from sim.simthreading import make_threading
from sim.tape import Tape

PROP = 'C15'
ROOT = '/simroot/db'
FILES = ('lock0', 'lock1')
MISSING = 'nolock'
POLICIES = ('random', 'sticky', 'pct', 'rr')


# --------------------------------------------------------------------------
# configuration classes (swarm): the batch driver picks one per run
# --------------------------------------------------------------------------
def config_for(i, tier='quick'):
    """Deterministic run-class assignment from the run index."""
    classes = [
        dict(fault='none', line=False),
        dict(fault='none', line=False),
        dict(fault='none', line=True),
        dict(fault='syscall', line=False),
        dict(fault='death', line=False),
        dict(fault='spurious', line=False),
        dict(fault='none', line=False, edeadlk=False),
        dict(fault='mix', line=True),
        dict(fault='interrupt', line=False),
    ]
    c = dict(classes[i % len(classes)])
    c.setdefault('edeadlk', True)
    return c


# --------------------------------------------------------------------------
# workload generation
# --------------------------------------------------------------------------
def _spell(path_idx, v):
    if path_idx >= len(FILES):
        name = MISSING
    else:
        name = FILES[path_idx]
    forms = (
        f'{ROOT}/{name}',
        f'{ROOT}/./{name}',
        f'{ROOT}/sub/../{name}',
        f'{ROOT}//{name}',
    )
    return forms[v % len(forms)]


def gen_program(tape: Tape):
    focus = tape.draw(6, 'focus')
    bias = {'shared': 2, 'upgrade': 4, 'nest': 3}
    if focus == 3:
        # one process, many readers of one file: fd / pool life-cycle races
        nproc, npaths, safe = 1, 1, True
        bias = {'shared': 5, 'upgrade': 6, 'nest': 4}
    elif focus == 4:
        # two processes on one file, nested (upgrading) requests
        nproc, npaths, safe = 2, 1, tape.draw(2, 'safe') == 0
        bias = {'shared': 3, 'upgrade': 2, 'nest': 2}
    else:
        nproc = 1 + tape.draw(2, 'nproc')
        npaths = 1 + tape.draw(2, 'npaths')
        safe = tape.draw(10, 'safe') < 7
    threads = []
    state = {'upgraders': 0, 'bias': bias}
    total_threads = 0
    for p in range(nproc):
        nthr = 1 + tape.draw(3, 'nthr')
        if focus == 3:
            nthr = max(nthr, 2)
        for t in range(nthr):
            nreq = 1 + tape.draw(3, 'nreq')
            budget = [nreq]
            items = []
            while budget[0] > 0:
                items.append(('req', _gen_req(tape, budget, npaths, safe, state, held=())))
            threads.append({'pid': p + 1, 'name': f'p{p + 1}.t{t + 1}', 'items': items})
            total_threads += 1
    if total_threads == 1:
        # a single thread cannot interleave with anything: add a partner
        budget = [2]
        items = []
        while budget[0] > 0:
            items.append(('req', _gen_req(tape, budget, npaths, safe, state, held=())))
        threads.append({'pid': 1, 'name': 'p1.t2', 'items': items})
    return {'nproc': nproc, 'npaths': npaths, 'safe': safe, 'threads': threads, 'focus': focus}


def _shared(tape, state):
    b = state['bias']['shared']
    return tape.draw(b, 'shared') != 0 if b > 2 else bool(tape.draw(2, 'shared'))


def _gen_req(tape, budget, npaths, safe, state, held):
    """held: tuple of (path_idx, shared) of enclosing requests of this thread."""
    budget[0] -= 1
    missing = tape.draw(40, 'missing') == 39
    if missing:
        path = len(FILES)  # the path that does not exist
        shared = bool(tape.draw(2, 'shared'))
        return {'path': path, 'spell': tape.draw(4, 'spell'), 'shared': shared,
                'blocking': True, 'reentrant': bool(tape.draw(2)), 'propagate': False, 'body': []}
    held_paths = [h[0] for h in held]
    if safe and held:
        top = max(held_paths)
        # either re-enter a held path without upgrading, or a strictly higher path
        options = []
        for hp in sorted(set(held_paths)):
            options.append(('re', hp))
        for q in range(top + 1, npaths):
            options.append(('new', q))
        kind, path = options[tape.draw(len(options), 'path')]
        if kind == 're':
            strongest_shared = all(h[1] for h in held if h[0] == path)
            reentrant = tape.draw(8, 'reentrant') != 7
            if strongest_shared:
                # holding only shared: exclusive would be an upgrade (a waiting one if
                # reentrant); allow a single waiting upgrader per program
                want_ex = tape.draw(state['bias']['upgrade'], 'upgrade') == state['bias']['upgrade'] - 1
                if want_ex and reentrant and (state['upgraders'] >= 1 or path != top):
                    # a waiting upgrade behaves like a fresh request for that path: only
                    # allowed on the highest path held (global order) and once per program
                    want_ex = False
                if want_ex and reentrant:
                    state['upgraders'] += 1
                shared = not want_ex
            else:
                shared = bool(tape.draw(2, 'shared'))
        else:
            shared = _shared(tape, state)
            reentrant = bool(tape.draw(2, 'reentrant'))
    else:
        path = tape.draw(npaths, 'path')
        shared = _shared(tape, state)
        reentrant = bool(tape.draw(2, 'reentrant'))
    blocking = tape.draw(4, 'blocking') != 3
    propagate = tape.draw(8, 'propagate') == 7
    req = {'path': path, 'spell': tape.draw(4, 'spell'), 'shared': shared, 'blocking': blocking,
           'reentrant': reentrant, 'propagate': propagate, 'body': []}
    nhold = tape.draw(3, 'nhold')
    body = [('hold',)] * nhold
    # nested request?
    while budget[0] > 0 and tape.draw(state['bias']['nest'], 'nest') == state['bias']['nest'] - 1:
        body = body + [('req', _gen_req(tape, budget, npaths, safe, state,
                                        held + ((path, shared),)))]
        if tape.draw(2, 'hold-after'):
            body = body + [('hold',)]
    req['body'] = body
    return req


def fmt_req(r):
    m = 'S' if r['shared'] else 'X'
    flags = ('' if r['blocking'] else ',nb') + (',re' if r['reentrant'] else '') + \
        (',prop' if r['propagate'] else '')
    p = FILES[r['path']] if r['path'] < len(FILES) else MISSING
    inner = ' '.join('hold' if it[0] == 'hold' else fmt_req(it[1]) for it in r['body'])
    return f'{m}({p}{flags}){{{inner}}}'


def fmt_program(prog):
    return {t['name']: [fmt_req(it[1]) for it in t['items']] for t in prog['threads']}


# --------------------------------------------------------------------------
# fault plan
# --------------------------------------------------------------------------
class Faults:
    def __init__(self, tape, cfg, oracle_ref):
        self.tape = tape
        self.kind = cfg.get('fault', 'none')
        self.oracle = oracle_ref
        self.fired = {}
        mix = self.kind == 'mix'
        self.syscall_on = self.kind == 'syscall' or mix
        self.spurious_on = self.kind == 'spurious' or mix
        self.interrupt_on = self.kind == 'interrupt' or mix
        self.interrupts_left = 2
        self.interrupted = {}        # vthread name -> number of interrupts delivered, not yet seen
        self.death_on = self.kind == 'death' or (mix and tape.draw(3, 'mix.death') == 2)
        self.death_step = None
        self.death_pid = None
        self.budget = 2
        if self.death_on:
            self.death_step = 3 + tape.draw(60, 'death.step')

    def spurious_wakeup(self, k):
        if not self.spurious_on:
            return False
        return self.tape.chance(1, 6, 'fault.spurious')

    def interrupt(self, k):
        """KeyboardInterrupt for a thread that is about to block while acquiring a blocking
        request (Ctrl-C); the thread catches it and carries on with its program."""
        if not self.interrupt_on or self.interrupts_left <= 0:
            return False
        vt = k.me()
        orc = self.oracle[0]
        frames = orc.inflight.get(vt) or []
        if orc.phase.get(vt) != 'acq' or not frames or not frames[-1]['req']['blocking']:
            return False
        if not self.tape.chance(1, 10, 'fault.interrupt'):
            return False
        self.interrupts_left -= 1
        self.interrupted[vt.name] = self.interrupted.get(vt.name, 0) + 1
        return True

    def syscall(self, k, site, pid, **kw):
        if not self.syscall_on or self.budget <= 0:
            return None
        vt = k.me()
        if site == 'close':
            # the only release-path fault: close() reporting EIO (the fd is closed anyway)
            if not self.tape.chance(1, 30, 'fault.close'):
                return None
            self.budget -= 1
            return OSError(errno.EIO, os.strerror(errno.EIO))
        # otherwise only while a request is being acquired
        if self.oracle[0].phase.get(vt) != 'acq':
            return None
        if not self.tape.chance(1, 8, 'fault.syscall'):
            return None
        self.budget -= 1
        if site == 'open':
            code = self.tape.choice((errno.EMFILE, errno.ENOENT, errno.EACCES), 'fault.errno')
        else:
            code = errno.ENOLCK
        return OSError(code, os.strerror(code))


# --------------------------------------------------------------------------
# oracle
# --------------------------------------------------------------------------
class Oracle:
    def __init__(self, kernel, simos, prog):
        self.k = kernel
        self.os = simos
        self.prog = prog
        self.holds = []              # (vt, inode, mode, fd)
        self.phase = {}              # vt -> 'idle' | 'acq' | 'body' | 'rel'
        self.inflight = {}           # vt -> list of in-flight request frames
        self.violations = []
        self.stats = {}
        self.outcomes = []
        self.interacted = False
        self.states = set()
        self.pools = {}              # pid -> {pool name: pool} (filled by run_one)

    def count(self, key, n=1):
        self.stats[key] = self.stats.get(key, 0) + n

    def violation(self, cls, detail):
        sig = f'{PROP}/{cls}'
        if not any(v['signature'] == sig for v in self.violations):
            self.violations.append({'signature': sig, 'detail': detail, 'step': self.k.steps})
        self.k.stop = True

    # ---- reference model
    def conflicting_holds(self, vt, inode, shared):
        out = []
        for (h, i, m, _fd) in self.holds:
            if i != inode or h is vt:
                continue
            if (not shared) or m == 'X':
                out.append((h, m))
        return out

    def own_holds(self, vt, inode):
        return [h for h in self.holds if h[0] is vt and h[1] == inode]

    def others_in_machinery(self, vt, inode):
        """Another thread OF THE SAME PROCESS is inside lock.py for this path (the internal
        locks a non-blocking request may find busy live in one module instance = process)."""
        for other, frames in self.inflight.items():
            if other is vt or other.pid != vt.pid or not frames:
                continue
            for fr in frames:
                if fr['inode'] == inode and fr['phase'] in ('acq', 'rel'):
                    return True
        return False

    # ---- callbacks from the workload interpreter
    def on_request(self, vt, req, inode):
        if vt.killed:
            return None
        fr = {'req': req, 'inode': inode, 'phase': 'acq', 'contended': False,
              'held_before': bool(self.own_holds(vt, inode))}
        self.inflight.setdefault(vt, []).append(fr)
        self.phase[vt] = 'acq'
        self._update_contention(vt, fr)
        return fr

    def _update_contention(self, vt, fr):
        if fr['contended']:
            return
        if self.conflicting_holds(vt, fr['inode'], fr['req']['shared']) or \
                self.others_in_machinery(vt, fr['inode']) or \
                self.os._conflicts(fr['inode'], vt.pid, 'S' if fr['req']['shared'] else 'X'):
            # (the last one: another PROCESS holds or is converting a conflicting record lock)
            fr['contended'] = True

    def on_enter(self, vt, fr, fd):
        if vt.killed:
            return None
        req = fr['req']
        inode = fr['inode']
        mode = 'S' if req['shared'] else 'X'
        fr['phase'] = 'body'
        self.phase[vt] = 'body'
        conf = self.conflicting_holds(vt, inode, req['shared'])
        if conf:
            self.violation('exclusion',
                           f'{vt.name} entered {mode} on {os.path.basename(inode)} while '
                           f'{[(h.name, m) for h, m in conf]} hold it')
        if fr['held_before'] and not req['reentrant']:
            self.violation('recursive-granted',
                           f'{vt.name}: non-reentrant recursive request was granted')
        if any(h[1] == inode and h[0] is not vt for h in self.holds):
            self.interacted = True
            self.count('probe.shared_together')
        own = self.own_holds(vt, inode)
        self.holds.append((vt, inode, mode, fd))
        self.count('granted')
        self.count('granted.' + mode)
        if fr['held_before']:
            self.count('probe.reentrant_grant')
            if mode == 'X' and all(h[2] == 'S' for h in own):
                self.count('probe.upgrade_granted')
        self.check_kernel()

    def on_exit(self, vt, fr):
        if vt.killed:
            return None
        if fr['req']['shared']:
            # probe: a reader leaves while an upgrader of the same path waits
            for o, frames in self.inflight.items():
                if o is vt or not frames or o.state != BLOCKED or o.blocked_kind != 'cond':
                    continue
                f2 = frames[-1]
                if f2['inode'] == fr['inode'] and f2['phase'] == 'acq' and not f2['req']['shared'] \
                        and f2['held_before']:
                    self.count('probe.reader_left_while_upgrader_waited')
        for idx in range(len(self.holds) - 1, -1, -1):
            h = self.holds[idx]
            if h[0] is vt and h[1] == fr['inode']:
                del self.holds[idx]
                break
        fr['phase'] = 'rel'
        self.phase[vt] = 'rel'

    def on_done(self, vt, fr, outcome, exc=None):
        if vt.killed:
            return None
        frames = self.inflight.get(vt, [])
        if frames and frames[-1] is fr:
            frames.pop()
        self.phase[vt] = frames[-1]['phase'] if frames else 'idle'
        req = fr['req']
        self.count('outcome.' + outcome)
        if outcome in ('granted', 'interrupted'):
            return
        inode = fr['inode']
        if outcome == 'wouldblock':
            self._update_contention(vt, fr)
            if req['blocking']:
                self.violation('blocking-refused', f'{vt.name}: blocking request raised {exc!r}')
            elif not fr['contended']:
                self.violation('spurious-refusal',
                               f'{vt.name}: non-blocking {fmt_req(req)} refused although nobody '
                               f'else held or was operating on the path')
        elif outcome == 'recursive':
            if req['reentrant'] or not fr['held_before']:
                self.violation('recursive-wrong',
                               f'{vt.name}: RecursiveDeadlockError for {fmt_req(req)} '
                               f'(held_before={fr["held_before"]})')
        elif outcome == 'oserror':
            missing = req['path'] >= len(FILES) and isinstance(exc, FileNotFoundError)
            produced = False
            for pe in ([] if missing else self.os.produced_errors):
                if pe[1] == vt.pid and pe[2] == exc.errno:
                    self.os.produced_errors.remove(pe)      # one produced error excuses one refusal
                    produced = True
                    break
            if not (produced or missing):
                self.violation('unexpected-oserror', f'{vt.name}: {exc!r} not produced by the kernel')
        elif outcome == 'error':
            self.violation(f'unexpected-error/{type(exc).__name__}', f'{vt.name}: {exc!r}')

    # ---- invariants evaluated at every scheduler step
    def check_kernel(self):
        for (vt, inode, mode, fd) in self.holds:
            if vt.pid in self.k.dead_pids:
                continue
            lk = self.os.locks.get(inode, {}).get(vt.pid)
            if lk is None or (mode == 'X' and lk != 'X'):
                self.violation('kernel-lock-missing',
                               f'{vt.name} is inside a body holding {mode} on '
                               f'{os.path.basename(inode)} but its process holds {lk} in the kernel')
                return
            f = self.os.fds.get(vt.pid, {}).get(fd)
            if f is None or f.inode != inode:
                self.violation('fd-invalid',
                               f'{vt.name}: fd {fd} yielded for {os.path.basename(inode)} is '
                               f'{"closed" if f is None else "another file"}')
                return

    def abstract_state(self):
        """Lock-table state: who holds what in the reference model and in the kernel, and
        what the parked vthreads wait for (thread identities abstracted to their process)."""
        holds = tuple(sorted((os.path.basename(i), vt.pid, m) for (vt, i, m, _f) in self.holds))
        kern = tuple(sorted((os.path.basename(i), p, m) for i, held in self.os.locks.items()
                            for p, m in held.items()))
        parked = tuple(sorted((t.pid, t.blocked_kind) for t in self.k.threads if t.state == BLOCKED))
        return int(hashlib.blake2b(repr((holds, kern, parked)).encode(), digest_size=6).hexdigest(), 16)

    def check_no_stale_state(self):
        """"When the last user leaves, the file descriptor is closed and all bookkeeping is
        empty" - evaluated at every step, not only at the end of the run: a process none of
        whose threads is inside path_lock() for a path (no request in flight, no body) must hold
        no record lock on it, have no descriptor of it open and keep no pool entry for it.  (A
        leftover that a later user happens to clean up is invisible to the end-state check.)"""
        users = set()
        for vt, frames in self.inflight.items():
            for fr in frames:
                users.add((vt.pid, fr['inode']))
        dead = self.k.dead_pids
        for inode, held in self.os.locks.items():
            for p, m in held.items():
                if p not in dead and (p, inode) not in users:
                    self.violation('leak/record-lock',
                                   f'process {p} holds {m} on {os.path.basename(inode)} in the kernel '
                                   f'although none of its threads is using the path')
                    return
        for p, table in self.os.fds.items():
            if p in dead:
                continue
            for fd, f in table.items():
                if (p, f.inode) not in users:
                    self.violation('leak/fd', f'process {p} keeps fd {fd} of '
                                              f'{os.path.basename(f.inode)} open although none of its '
                                              f'threads is using the path')
                    return
        for p, pools in self.pools.items():
            if p in dead:
                continue
            table = self.os.fds.get(p, {})
            for name, pool in pools.items():
                for key in list(pool._refs):
                    if isinstance(key, str):
                        ok = (p, key) in users
                    else:       # pools keyed by file descriptor
                        f = table.get(key)
                        ok = f is not None and (p, f.inode) in users
                    if not ok:
                        self.violation('leak/pool', f'process {p}: {name} keeps {key!r} although none '
                                                    f'of its threads is using the path')
                        return

    def check_waiters_have_a_waker(self):
        """No lost wake-up, step by step: a blocking requester parked on a condition variable
        (not yet notified) is woken by threads of its own process only.  If no other thread of the
        process is inside path_lock() for that path - in a body, acquiring or releasing - nobody
        is left to notify it: it has been forgotten, even if some later, unrelated request would
        happen to rescue it (the quiescence check cannot see that case)."""
        for vt, frames in self.inflight.items():
            if not frames or vt.state != BLOCKED or vt.blocked_kind != 'cond' or vt.killed:
                continue
            fr = frames[-1]
            if fr['phase'] != 'acq' or vt.pred is None or vt.pred():
                continue
            inode = fr['inode']
            alone = True
            for o, ofr in self.inflight.items():
                if o is vt or o.pid != vt.pid or o.killed:
                    continue
                if any(f['inode'] == inode for f in ofr):
                    alone = False
                    break
            if alone:
                self.count('probe.stepwise_lost_grant')
                self.violation('lost-grant',
                               f'{vt.name}: {fmt_req(fr["req"])} waits on the condition variable, not '
                               f'notified, while no other thread of process {vt.pid} is using '
                               f'{os.path.basename(inode)} any more')
                return

    def on_step(self):
        self.states.add(self.abstract_state())
        self.check_kernel()
        self.check_no_stale_state()
        self.check_waiters_have_a_waker()
        for vt, frames in self.inflight.items():
            if not frames:
                continue
            fr = frames[-1]
            if fr['phase'] != 'acq':
                continue
            self._update_contention(vt, fr)
            if vt.state == BLOCKED and vt.blocked_kind == 'lockf' and fr['req']['shared']:
                # "any number may hold it shared together": a shared request must not wait
                # behind a process that only has shared holders and is not transitioning
                inode = fr['inode']
                for p, m in self.os.locks.get(inode, {}).items():
                    if p == vt.pid or m != 'X' or p in self.k.dead_pids:
                        continue
                    busy = any(h[0].pid == p and h[1] == inode and h[2] == 'X' for h in self.holds)
                    if not busy:
                        for o, ofr in self.inflight.items():
                            if o.pid == p and any(f['inode'] == inode and f['phase'] in ('acq', 'rel')
                                                  for f in ofr):
                                busy = True
                                break
                    if not busy:
                        self.violation('shared-blocked-by-shared',
                                       f'{vt.name}: shared request waits in lockf although process {p} '
                                       f'has no exclusive holder and nobody in transition (kernel lock '
                                       f'left exclusive)')
            if not fr['req']['blocking'] and vt.state == BLOCKED:
                kind = vt.blocked_kind
                if kind in ('lockf', 'cond'):
                    self.violation('nb-parked', f'{vt.name}: non-blocking request parked in {kind}')
                elif kind == 'lock':
                    owner = getattr(vt.blocked_obj, 'owner', None)
                    if owner is not None and owner is not vt and (
                            owner.state == BLOCKED or self.phase.get(owner, 'idle') in ('body', 'idle')):
                        self.violation('nb-parked',
                                       f'{vt.name}: non-blocking request parked behind {owner.name} '
                                       f'({owner.state}, {self.phase.get(owner)})')

    # ---- process death
    def on_death(self, pid):
        self.holds = [h for h in self.holds if h[0].pid != pid]
        for vt in list(self.inflight):
            if vt.pid == pid:
                self.inflight[vt] = []
                self.phase[vt] = 'dead'

    # ---- quiescence / end of run
    def at_quiescence(self, outcome, mods):
        k = self.k
        parked = [t for t in k.threads if t.state == BLOCKED and not t.killed]
        if outcome == 'quiescent':
            self.count('quiescent_runs')
            # justified = least fixpoint
            reqs = {}
            for vt in parked:
                frames = self.inflight.get(vt, [])
                if frames and frames[-1]['phase'] == 'acq':
                    reqs[vt] = frames[-1]
                else:
                    self.violation('parked-outside-request',
                                   f'{vt.name} parked on {vt.blocked_kind} in phase '
                                   f'{self.phase.get(vt)}')
            justified = set()
            changed = True
            while changed:
                changed = False
                for vt, fr in reqs.items():
                    if vt in justified:
                        continue
                    shared = fr['req']['shared']
                    # (a) a conflicting holder exists in the reference model - in the domain
                    # the waiter is parked in: a condition variable is signalled by threads of
                    # the same process only, lockf waits for other processes only
                    conf = self.conflicting_holds(vt, fr['inode'], shared)
                    if vt.blocked_kind == 'cond':
                        conf = [c for c in conf if c[0].pid == vt.pid]
                    elif vt.blocked_kind == 'lockf':
                        conf = [c for c in conf if c[0].pid != vt.pid]
                    ok = bool(conf)
                    if not ok and vt.blocked_kind == 'cond':
                        # (c) a thread of the same process that has already passed the thread
                        # level of this path (it is counted there) and now waits further down
                        # (in lockf, or on an internal lock) for a justified reason
                        for o, ofr in reqs.items():
                            if o is not vt and o.pid == vt.pid and o in justified and \
                                    ofr['inode'] == fr['inode'] and o.blocked_kind in ('lockf', 'lock'):
                                ok = True
                                break
                    if not ok and vt.blocked_kind == 'lock':
                        # (b) queued behind a justified requester that owns the internal
                        # lock this one needs (e.g. a writer waiting in lockf)
                        owner = getattr(vt.blocked_obj, 'owner', None)
                        if owner is not None and owner in justified:
                            ok = True
                    if ok:
                        justified.add(vt)
                        changed = True
            for vt, fr in reqs.items():
                req = fr['req']
                if not req['blocking']:
                    self.violation('nb-parked', f'{vt.name}: non-blocking request parked for good')
                elif fr['held_before'] and not req['reentrant']:
                    self.violation('recursive-hang',
                                   f'{vt.name}: non-reentrant recursive request {fmt_req(req)} hangs '
                                   f'instead of raising')
                elif vt not in justified:
                    self.violation('lost-grant',
                                   f'{vt.name}: blocking {fmt_req(req)} parked on {vt.blocked_kind} '
                                   f'with no conflicting holder or requester left')
            if not self.violations:
                self.count('inherent_deadlocks')
                if self.prog['safe']:
                    self.violation('deadlock-in-ordered-program',
                                   'all threads parked in a program with global path order and at '
                                   'most one upgrader: ' +
                                   ', '.join(f'{vt.name}->{vt.blocked_kind}' for vt in parked))
        elif outcome == 'done':
            self.count('completed_runs')
            # end state: nothing left anywhere
            for pid, table in self.os.fds.items():
                if pid in k.dead_pids:
                    continue
                if table:
                    self.violation('leak/fd', f'process {pid} still has fds {sorted(table)} open')
            for inode, held in self.os.locks.items():
                live = {p: m for p, m in held.items() if p not in k.dead_pids}
                if live:
                    self.violation('leak/record-lock',
                                   f'{os.path.basename(inode)} still locked by {live}')
            for pid, mod in mods.items():
                if pid in k.dead_pids:
                    continue
                for name, pool in modinst.pools_of(mod).items():
                    if pool._refs:
                        self.violation('leak/pool', f'process {pid}: {name} not empty: '
                                                    f'{list(pool._refs)}')
            if self.holds:
                self.violation('harness/holds-left', repr(self.holds))


# --------------------------------------------------------------------------
# one simulated run
# --------------------------------------------------------------------------
def run_one(cfg, tape: Tape, want_trace=False):
    policy = POLICIES[tape.draw(len(POLICIES), 'policy')]
    depth = 1 + tape.draw(3, 'pct.depth')
    prog = gen_program(tape)
    lock_path = modinst.lock_py_path()
    trace_files = (lock_path,) if cfg.get('line') else ()
    k = Kernel(tape, policy=policy, max_steps=cfg.get('max_steps', 6000 if cfg.get('line') else 2500),
               pct_depth=depth, trace_files=trace_files, log_events=want_trace)
    stats = {}
    oracle_ref = [None]
    faults = Faults(tape, cfg, oracle_ref)
    existing = {os.path.normpath(f'{ROOT}/{f}') for f in FILES}
    if tape.draw(3, 'first_use') == 2:
        # first use: the lock files do not exist yet, whoever comes first creates them
        existing = set()
        stats['probe.first_use_of_the_lock_files'] = stats.get('probe.first_use_of_the_lock_files', 0) + 1
    # one run in four is a process whose standard descriptors are closed (a daemon): the lock
    # file may then be opened on descriptor 0, 1 or 2
    first_fd = 0 if tape.draw(4, 'first_fd') == 3 else 3
    simos = SimOS(k, exists=lambda p: os.path.normpath(p) in existing,
                  create=lambda p: existing.add(os.path.normpath(p)),
                  edeadlk=cfg.get('edeadlk', True), faults=faults, stats=stats, first_fd=first_fd)
    if first_fd == 0:
        stats['probe.descriptors_from_zero'] = stats.get('probe.descriptors_from_zero', 0) + 1
    oracle = Oracle(k, simos, prog)
    oracle.stats = stats
    oracle_ref[0] = oracle
    mods = {}
    for pid in range(1, prog['nproc'] + 1):
        thr = make_threading(k, faults=faults, stats=stats)
        mods[pid] = modinst.load_lock_module(thr, simos.make_fcntl(pid), simos.make_os(pid))

    oracle.pools = {pid: modinst.pools_of(m) for pid, m in mods.items()}

    def make_body(tspec):
        mod = mods[tspec['pid']]
        WouldBlock = mod.AcquiringLockWouldBlockError
        Recursive = mod.RecursiveDeadlockError

        def run_items(vt, items):
            for it in items:
                if vt.killed:
                    raise SimAbort()
                if it[0] == 'hold':
                    k.yield_point('hold')
                else:
                    run_req(vt, it[1])

        def run_req(vt, req):
            path = _spell(req['path'], req['spell'])
            inode = os.path.normpath(path)
            fr = oracle.on_request(vt, req, inode)
            entered = False
            try:
                with mod.path_lock(path, shared=req['shared'], blocking=req['blocking'],
                                   reentrant=req['reentrant']) as fd:
                    if vt.killed:
                        return
                    entered = True
                    oracle.on_enter(vt, fr, fd)
                    try:
                        run_items(vt, req['body'])
                    finally:
                        if not vt.killed:
                            oracle.on_exit(vt, fr)
            except KeyboardInterrupt as e:
                if vt.killed:
                    raise SimAbort()
                if not entered and faults.interrupted.get(vt.name, 0) > 0:
                    faults.interrupted[vt.name] -= 1
                    oracle.on_done(vt, fr, 'interrupted')
                else:
                    oracle.on_done(vt, fr, 'error', e)
            except _Propagated:
                if not vt.killed:
                    oracle.on_done(vt, fr, 'granted' if entered else 'error',
                                   None if entered else RuntimeError('propagated before entry'))
                raise
            except WouldBlock as e:
                if vt.killed:
                    raise SimAbort()
                if entered:
                    oracle.on_done(vt, fr, 'error', e)
                else:
                    oracle.on_done(vt, fr, 'wouldblock', e)
                    if req['propagate']:
                        raise _Propagated()
            except Recursive as e:
                if vt.killed:
                    raise SimAbort()
                if entered:
                    oracle.on_done(vt, fr, 'error', e)
                else:
                    oracle.on_done(vt, fr, 'recursive', e)
                    if req['propagate']:
                        raise _Propagated()
            except OSError as e:
                if vt.killed:
                    raise SimAbort()
                if entered and e.errno == errno.EIO and any(
                        pe[0] == 'close' and pe[1] == vt.pid for pe in simos.produced_errors):
                    # the request was granted and served; close() of the lock fd reported EIO
                    # on the way out (injected).  The end-state checks still apply.
                    for pe in simos.produced_errors:        # one produced error excuses one failure
                        if pe[0] == 'close' and pe[1] == vt.pid:
                            simos.produced_errors.remove(pe)
                            break
                    stats['probe.close_error_on_release'] = stats.get('probe.close_error_on_release', 0) + 1
                    oracle.on_done(vt, fr, 'granted')
                elif entered:
                    oracle.on_done(vt, fr, 'error', e)
                else:
                    oracle.on_done(vt, fr, 'oserror', e)
                    if req['propagate']:
                        raise _Propagated()
            except Exception as e:  # AssertionError, KeyError, RuntimeError ... from lock.py
                if vt.killed:
                    raise SimAbort()
                oracle.on_done(vt, fr, 'error', e)
            else:
                oracle.on_done(vt, fr, 'granted')

        def body():
            vt = k.me()
            try:
                run_items(vt, tspec['items'])
            except _Propagated:
                pass

        return body

    for tspec in prog['threads']:
        vt = k.spawn(make_body(tspec), tspec['name'], pid=tspec['pid'])
        oracle.phase[vt] = 'idle'

    def on_step():
        if faults.death_step is not None and k.steps >= faults.death_step and \
                faults.death_pid is None:
            pids = sorted({t.pid for t in k.threads})
            pid = pids[tape.draw(len(pids), 'death.pid')]
            faults.death_pid = pid
            stats['fault.death'] = stats.get('fault.death', 0) + 1
            had = any(h[0].pid == pid for h in oracle.holds)
            if had:
                stats['probe.death_while_holding'] = stats.get('probe.death_while_holding', 0) + 1
            simos.exit_process(pid)
            oracle.on_death(pid)
            k.kill_process(pid)
            return
        oracle.on_step()

    k.on_step = on_step
    try:
        outcome = k.run()
        if outcome in ('done', 'quiescent'):
            oracle.at_quiescence(outcome, mods)
        harness = None
        if outcome == 'cap':
            harness = f'step cap hit ({k.max_steps})'
        for t in k.threads:
            if t.exc is not None:
                harness = f'uncaught exception in {t.name}: {t.exc!r}'
    finally:
        k.shutdown()
    nthreads = len(k.threads)
    res = {
        'violations': oracle.violations,
        'harness_error': harness,
        'digest': k.digest(),
        'steps': k.steps,
        'switches': k.switches,
        'outcome': outcome,
        'stats': stats,
        'nontrivial': bool(oracle.interacted or k.switches > nthreads),
        'policy': policy,
        'tape': list(tape.out),
        'states': list(oracle.states),
    }
    if want_trace:
        res['program'] = fmt_program(prog)
        res['safe'] = prog['safe']
        res['events'] = k.events
    return res


class _Propagated(Exception):
    pass


def decode(cfg, tape_values):
    """Human-readable form of a replay (documentation only)."""
    t = Tape(recorded=tape_values)
    r = run_one(cfg, t, want_trace=True)
    sched = []
    for ev in r['events']:
        if ev[2] in ('park', 'wake', 'lockf.ok', 'lockf.un', 'lockf.eagain', 'lockf.edeadlk',
                     'open', 'close', 'death', 'fault'):
            sched.append(f'{ev[0]}:{ev[1]}:{" ".join(str(x) for x in ev[2:])}')
    return {'program': r['program'], 'safe_mode': r['safe'], 'policy': r['policy'],
            'outcome': r['outcome'], 'schedule': sched[:200],
            'violations': r['violations']}


# --------------------------------------------------------------------------
# driver interface
# --------------------------------------------------------------------------
LEVEL = 'exploration'
RULE = ('each evaluation is one simulated execution of a tape-generated program (<=3 threads x <=2 '
        'processes, <=3 nested/sequential requests per thread, <=2 lock files + one missing path, '
        'arbitrary shared/blocking/reentrant flags) under one seeded schedule (uniform, sticky, PCT '
        'd<=3, round-robin; one run class in four pre-empts at every line of lock.py) and one fault '
        'class; distinct = distinct SHA-256 of the event log (every yield/park/wake/syscall); '
        'non-trivial = two vthreads were inside bodies on the same path together or the run had more '
        'context switches than threads')
ASSUMPTIONS = [
    'SimOS models Linux POSIX record locks (per-process ownership, conversion, drop on close of any '
    'fd, EDEADLK by owner-level cycle detection); the Windows msvcrt branch is not simulated',
    'CPython Lock/RLock/Condition semantics as implemented in sim/simthreading.py (FIFO notify, '
    'scheduler-chosen lock hand-over, optional spurious wake-ups)',
    'pre-emption happens only at synchronisation operations, syscalls and (line class) line '
    'boundaries of lock.py; bytecode-level races inside one line are not explored',
    'inherent deadlocks of the program (two upgraders, opposite path order) are counted, not flagged',
]
COMPONENTS = {
    'real': ['pharmpy/internals/fs/lock.py (source of the working tree, executed unmodified, one '
             'module instance per virtual process)'],
    'stub': ['threading.Lock/RLock/Condition/get_ident (sim/simthreading.py)',
             'fcntl.lockf, os.open/os.close, fd table, record-lock table (sim/simos.py)',
             'thread scheduler (sim/kernel.py)'],
}


def class_name(cfg):
    return f"fault={cfg.get('fault')},line={int(bool(cfg.get('line')))},edeadlk={int(cfg.get('edeadlk', True))}"


def budget(tier):
    if tier == 'thorough':
        return {'runs': 1_500_000, 'chunk': 2000, 'selftest_every': 200, 'xproc_runs': 2000,
                'chunk_timeout': 1200, 'wall_limit': 3 * 3600, 'shrink_evals': 3000,
                'shrink_seconds': 240}
    return {'runs': 40_000, 'chunk': 400, 'selftest_every': 40, 'xproc_runs': 300,
            'chunk_timeout': 600, 'wall_limit': 1500, 'shrink_evals': 1500, 'shrink_seconds': 60}


def sample_of(cfg, r):
    t = Tape(recorded=r['tape'])
    rr = run_one(cfg, t, want_trace=True)
    return {'config': cfg, 'policy': rr['policy'], 'program': rr['program'], 'outcome': rr['outcome'],
            'steps': rr['steps'], 'first_events': [' '.join(str(x) for x in e) for e in rr['events'][:40]]}
