"""C12 (restricted to the configuration clause) - the database key does not depend on
the process, on hash randomisation or on the order in which the object was built.

"Nodes" are fresh interpreter processes started with different PYTHONHASHSEED
values.  Every node rebuilds the same batch of models from the same tape (a
corpus model + a seeded history of public transformations, and - for the
construction-order clause - the same target reached through two histories that
pharmpy itself reports as ``==``) and prints key, dataset hash and digests of the
dictionary form and of the generated code.  The coordinator compares the nodes
line by line, checks the within-node laws, and lets one node store its batch
through the real database while another node (other hash seed) retrieves every
entry by the key *it* computed.  See DESIGN.md 5.4.
"""

from __future__ import annotations

import argparse
import hashlib
import json
import os
import shutil
import subprocess
import sys
import time

VERIF = os.path.dirname(os.path.dirname(os.path.abspath(__file__)))
PROP = 'C12'
PY = '/venv/bin/python'

sys.path.insert(0, VERIF)
from sim.tape import Tape  # noqa: E402


# --------------------------------------------------------------------------
# node side
# --------------------------------------------------------------------------
def _transformations():
    import pharmpy.modeling as pm
    T = [
        ('add_peripheral_compartment', lambda m: pm.add_peripheral_compartment(m)),
        ('set_first_order_absorption', lambda m: pm.set_first_order_absorption(m)),
        ('set_zero_order_absorption', lambda m: pm.set_zero_order_absorption(m)),
        ('add_lag_time', lambda m: pm.add_lag_time(m)),
        ('set_transit_compartments(2)', lambda m: pm.set_transit_compartments(m, 2)),
        ('set_michaelis_menten_elimination', lambda m: pm.set_michaelis_menten_elimination(m)),
        ('set_mixed_mm_fo_elimination', lambda m: pm.set_mixed_mm_fo_elimination(m)),
        ('set_first_order_elimination', lambda m: pm.set_first_order_elimination(m)),
        ('remove_peripheral_compartment', lambda m: pm.remove_peripheral_compartment(m)),
        ('remove_lag_time', lambda m: pm.remove_lag_time(m)),
        ('set_additive_error_model', lambda m: pm.set_additive_error_model(m)),
        ('set_combined_error_model', lambda m: pm.set_combined_error_model(m)),
        ('set_proportional_error_model', lambda m: pm.set_proportional_error_model(m)),
        ('remove_iiv(CL)', lambda m: pm.remove_iiv(m, 'CL')),
        ('add_pk_iiv', lambda m: pm.add_pk_iiv(m)),
        ('create_joint_distribution', lambda m: pm.create_joint_distribution(m)),
        ('split_joint_distribution', lambda m: pm.split_joint_distribution(m)),
        ('fix(POP_CL)', lambda m: pm.fix_parameters(m, 'POP_CL')),
        ('fix(POP_VC)', lambda m: pm.fix_parameters(m, 'POP_VC')),
        ('init(POP_CL)', lambda m: pm.set_initial_estimates(m, {'POP_CL': 0.006})),
        ('init(POP_VC)', lambda m: pm.set_initial_estimates(m, {'POP_VC': 1.2})),
        ('upper(POP_CL)', lambda m: pm.set_upper_bounds(m, {'POP_CL': 10})),
        ('add_covariate_effect(VC,APGR)', lambda m: pm.add_covariate_effect(m, 'VC', 'APGR', 'exp')),
        ('add_allometry', lambda m: pm.add_allometry(m, allometric_variable='WGT', reference_value=70)),
        ('set_iiv_on_ruv', lambda m: pm.set_iiv_on_ruv(m)),
        ('set_power_on_ruv', lambda m: pm.set_power_on_ruv(m)),
        ('add_population_parameter', lambda m: pm.add_population_parameter(m, 'POP_X', 1.0)),
        ('add_estimation_step(SAEM)', lambda m: pm.add_estimation_step(m, 'SAEM')),
        ('set_estimation_step(IMP)', lambda m: pm.set_estimation_step(m, 'IMP', 0)),
        ('remove_parameter_uncertainty_step', lambda m: pm.remove_parameter_uncertainty_step(m)),
        ('add_effect_compartment', lambda m: pm.add_effect_compartment(m, 'linear')),
        ('transform_blq(m4)', lambda m: pm.transform_blq(m, method='m4', lloq=0.1)),
        # mostly commuting edits (used in both orders by the 'commute' family)
        ('add_covariate_effect(CL,WGT,pow)', lambda m: pm.add_covariate_effect(m, 'CL', 'WGT', 'pow')),
        ('add_covariate_effect(CL,APGR,lin)', lambda m: pm.add_covariate_effect(m, 'CL', 'APGR', 'lin')),
        ('lower(POP_VC)', lambda m: pm.set_lower_bounds(m, {'POP_VC': 0.01})),
        ('add_population_parameter(Y)', lambda m: pm.add_population_parameter(m, 'POP_Y', 2.0)),
        ('fix(IIV_CL)', lambda m: pm.fix_parameters(m, 'IIV_CL')),
        ('init(IIV_VC)', lambda m: pm.set_initial_estimates(m, {'IIV_VC': 0.05})),
        ('add_iov', lambda m: pm.add_iov(m, 'FA1', ['CL'])),
        ('add_estimation_step(IMP)', lambda m: pm.add_estimation_step(m, 'IMP')),
        ('add_individual_parameter', lambda m: pm.add_individual_parameter(m, 'MAT')),
        ('set_evaluation_step', lambda m: pm.set_evaluation_step(m)),
        ('update_initial_individual_estimates', _with_individual_estimates),
        ('set_estimation_step(IMP,2 options)', lambda m: pm.set_estimation_step(
            m, 'IMP', 0, tool_options={'NITER': 1000, 'ISAMPLE': 100})),
        ('add_estimation_step(SAEM,3 options)', lambda m: pm.add_estimation_step(
            m, 'SAEM', tool_options={'NBURN': 500, 'NITER': 200, 'ISAMPLE': 2})),
        ('append_estimation_step_options', lambda m: pm.append_estimation_step_options(
            m, tool_options={'SEED': 1234, 'PHITYPE': 1}, idx=0)),
        # more components: dataset/datainfo edits, error models, eta transformations, PD, steps
        ('add_time_after_dose', lambda m: pm.add_time_after_dose(m)),
        ('set_dtbs_error_model', lambda m: pm.set_dtbs_error_model(m)),
        ('set_weighted_error_model', lambda m: pm.set_weighted_error_model(m)),
        ('set_time_varying_error_model', lambda m: pm.set_time_varying_error_model(m, cutoff=1.0)),
        ('use_thetas_for_error_stdev', lambda m: pm.use_thetas_for_error_stdev(m)),
        ('set_ode_solver(LSODA)', lambda m: pm.set_ode_solver(m, 'LSODA')),
        ('add_predictions', lambda m: pm.add_predictions(m, ['CIPREDI', 'PRED'])),
        ('add_residuals', lambda m: pm.add_residuals(m, ['CWRES', 'RES'])),
        ('set_simulation', lambda m: pm.set_simulation(m, n=2, seed=1234)),
        ('add_parameter_uncertainty_step(RMAT)', lambda m: pm.add_parameter_uncertainty_step(m, 'RMAT')),
        ('drop_columns(APGR)', lambda m: pm.drop_columns(m, ['APGR'], mark=True)),
        ('remove_loq_data', lambda m: pm.remove_loq_data(m, lloq=10)),
        ('set_covariates', lambda m: pm.set_covariates(m, ['WGT', 'APGR'])),
        ('add_cmt', lambda m: pm.add_cmt(m)),
        ('add_admid', lambda m: pm.add_admid(m)),
        ('set_zero_order_elimination', lambda m: pm.set_zero_order_elimination(m)),
        ('set_seq_zo_fo_absorption', lambda m: pm.set_seq_zo_fo_absorption(m)),
        ('add_bioavailability', lambda m: pm.add_bioavailability(m)),
        ('transform_etas_boxcox(ETA_CL)', lambda m: pm.transform_etas_boxcox(m, ['ETA_CL'])),
        ('transform_etas_tdist(ETA_VC)', lambda m: pm.transform_etas_tdist(m, ['ETA_VC'])),
        ('remove_error_model', lambda m: pm.remove_error_model(m)),
        ('mu_reference_model', lambda m: pm.mu_reference_model(m)),
        ('add_indirect_effect', lambda m: pm.add_indirect_effect(m, 'linear')),
        ('add_metabolite', lambda m: pm.add_metabolite(m)),
        ('set_direct_effect(emax)', lambda m: pm.set_direct_effect(m, 'emax')),
        # the same numeric constant once as int and once as float (different content: the
        # serialised statement differs) - must not depend on which one the process met first
        ('set_zero_order_input(250)', lambda m: pm.set_zero_order_input(m, 'CENTRAL', 250)),
        ('set_zero_order_input(250.0)', lambda m: pm.set_zero_order_input(m, 'CENTRAL', 250.0)),
        ('set_initial_condition(10)', lambda m: pm.set_initial_condition(m, 'CENTRAL', 10)),
        ('set_initial_condition(10.0)', lambda m: pm.set_initial_condition(m, 'CENTRAL', 10.0)),
        ('add_derivative', lambda m: pm.add_derivative(m)),
        ('add_derivative(ETA_CL)', lambda m: pm.add_derivative(m, with_respect_to=['ETA_CL'])),
        ('set_proportional_error_model(log)', lambda m: pm.set_proportional_error_model(m, data_trans='log(Y)')),
        ('init(numpy floats)', lambda m: pm.set_initial_estimates(
            m, {'POP_CL': __import__('numpy').float64(0.005), 'POP_VC': __import__('numpy').float32(1.5)})),
        ('upper(numpy int)', lambda m: pm.set_upper_bounds(m, {'POP_VC': __import__('numpy').int64(20)})),
        ('joint of 3 etas', lambda m: pm.create_joint_distribution(pm.add_iiv(m, 'S1', 'exp'))),
        ('set_dvid(FA1)', lambda m: pm.set_dvid(m, 'FA1')),
        ('add_pd_iiv', lambda m: pm.add_pd_iiv(pm.set_direct_effect(m, 'linear'))),
        ('set_tmdd(qss)', lambda m: pm.set_tmdd(m, 'qss')),
        ('set_baseline_effect', lambda m: pm.set_baseline_effect(m)),
        ('add_iov(joint)', lambda m: pm.add_iov(m, 'FA1', ['CL', 'VC'], distribution='joint')),
        ('unit(WGT)', lambda m: m.replace(datainfo=m.datainfo.set_column(m.datainfo['WGT'].replace(unit='kg')))),
        ('descriptor(WGT)', lambda m: m.replace(datainfo=m.datainfo.set_column(
            m.datainfo['WGT'].replace(descriptor='body weight')))),
        ('categorical APGR', lambda m: m.replace(datainfo=m.datainfo.set_column(
            m.datainfo['APGR'].replace(type='covariate', scale='ordinal', categories=tuple(
                sorted(set(int(x) for x in m.dataset['APGR']))))))),
        # iv+oral: the dose also goes into CENTRAL (what create_basic_pk_model('ivoral') builds), so
        # that two compartments carry the dose symbol while others do not; then an edit that
        # substitutes that symbol in the ODE system (CompartmentalSystem.subs)
        ('iv+oral dose into CENTRAL', _ivoral),
        ('iv+oral, peripheral, rename_symbols(AMT)', lambda m: pm.rename_symbols(
            pm.add_peripheral_compartment(_ivoral(m)), {'AMT': 'DOSE'})),
        ('rename_symbols(AMT)', lambda m: pm.rename_symbols(m, {'AMT': 'DOSE'})),
    ]
    return T


def _ivoral(m):
    import pharmpy.modeling as pm
    from pharmpy.basic import Expr
    from pharmpy.model import Bolus, CompartmentalSystem, CompartmentalSystemBuilder
    if not pm.has_first_order_absorption(m):
        m = pm.set_first_order_absorption(m)
    ode = m.statements.ode_system
    cb = CompartmentalSystemBuilder(ode)
    central = cb.find_compartment('CENTRAL')
    cb.set_dose(central, (Bolus(Expr.symbol('AMT'), admid=2),))
    return m.replace(statements=m.statements.before_odes + CompartmentalSystem(cb) +
                     m.statements.after_odes)


def _with_individual_estimates(m):
    import pandas as pd
    import pharmpy.modeling as pm
    etas = m.random_variables.etas.names
    ids = sorted(m.dataset['ID'].unique())
    ie = pd.DataFrame({e: [0.01 * (i + 1) * (j + 1) for i in range(len(ids))] for j, e in enumerate(etas)},
                      index=pd.Index([int(x) for x in ids], name='ID'))
    return pm.update_initial_individual_estimates(m, ie, force=True)


COMMUTING_FROM = 17      # index of the first "mostly commuting" transformation (fix/init/bounds/...)


def _sha(s):
    if isinstance(s, str):
        s = s.encode()
    return hashlib.sha256(s).hexdigest()[:20]


def _facts(model, ModelHash):
    """What a node reports about one model."""
    d = model.to_dict()
    js = json.dumps(d)
    out = {}
    k = ModelHash(model)
    out['key'] = str(k)
    out['dataset_hash'] = str(k.dataset_hash)
    try:
        from pharmpy.workflows import ModelEntry
        out['key_via_entry'] = str(ModelHash(ModelEntry.create(model)))
        out['key_via_hash'] = str(ModelHash(k))
    except Exception as e:
        out['key_via_entry'] = f'ERR:{type(e).__name__}'
    out['dict_sha'] = _sha(js)
    try:
        out['code_sha'] = _sha(model.code)
    except Exception as e:
        out['code_sha'] = f'ERR:{type(e).__name__}'
    try:
        out['json_roundtrip'] = json.loads(js) == json.loads(json.dumps(json.loads(js)))
    except Exception as e:
        out['json_roundtrip'] = f'ERR:{type(e).__name__}'
    try:
        from pharmpy.model import Model
        back = Model.from_dict(d)
        out['from_dict_eq'] = bool(back == model)
        out['from_dict_key'] = str(ModelHash(back.replace(dataset=model.dataset,
                                                          datainfo=model.datainfo)))
    except Exception as e:
        out['from_dict_eq'] = f'ERR:{type(e).__name__}'
        out['from_dict_key'] = None
    return out


def _apply(model, T, idxs, log):
    for i in idxs:
        name, fn = T[i]
        try:
            model = fn(model)
            log.append(name)
        except Exception as e:
            log.append(f'{name}!{type(e).__name__}')
    return model


def _rebuild_ode(model, tape):
    """The same compartmental system assembled with CompartmentalSystemBuilder in a
    tape-drawn order of compartments and flows."""
    from pharmpy.model import CompartmentalSystem, CompartmentalSystemBuilder, output
    ode = model.statements.ode_system
    if ode is None:
        return None
    g = ode._g if hasattr(ode, '_g') else None
    comps = [c for c in ode.compartment_names]
    comps = [ode.find_compartment(n) for n in comps]
    flows = []
    allc = comps + [output]
    for a in comps:
        for b in allc:
            if a is b:
                continue
            r = ode.get_flow(a, b)
            if r != 0:
                flows.append((a, b, r))
    perm_c = tape.permutation(len(comps), 'rebuild.comps')
    perm_f = tape.permutation(len(flows), 'rebuild.flows')
    cb = CompartmentalSystemBuilder()
    for i in perm_c:
        cb.add_compartment(comps[i])
    for i in perm_f:
        a, b, r = flows[i]
        cb.add_flow(a, b, r)
    new = CompartmentalSystem(cb, t=ode.t)
    st = model.statements
    new_st = st.before_odes + new + st.after_odes
    del g
    return model.replace(statements=new_st), (perm_c, perm_f)


def node_main(args):
    import warnings
    warnings.filterwarnings('ignore')
    from pharmpy.modeling import load_example_model
    from pharmpy.workflows.hashing import ModelHash
    T = _transformations()
    base = load_example_model('pheno')
    ds = base.dataset
    base = base.replace(dataset=ds[ds['ID'] <= 4].reset_index(drop=True))
    base0 = base
    try:
        lin = load_example_model('pheno_linear')
        lin = lin.replace(dataset=lin.dataset[lin.dataset['ID'] <= 6].reset_index(drop=True))
    except Exception:
        lin = None
    out = []
    stored = {}
    db = None
    if args.store or args.retrieve:
        from pharmpy.workflows import LocalModelDirectoryDatabase
        db = LocalModelDirectoryDatabase(args.store or args.retrieve)
    indices = list(range(args.start, args.start + args.count))
    # every node walks the batch in its own order (identity / reversed / shuffled): a key that
    # depends on what the process has seen before (caches, counters) then differs between nodes
    if args.order == 'reversed':
        indices.reverse()
    elif args.order == 'shuffled':
        import random as _random
        _random.Random(args.batch * 7919 + args.start).shuffle(indices)
    for i in indices:
        tape = Tape(seed=args.batch * 1_000_003 + i)
        family = ('plain', 'commute', 'rebuild', 'rename', 'differs', 'unloaded')[i % 6]
        rec = {'index': i, 'family': family}
        log = []
        k = tape.draw(6, 'history.len')
        hist = [tape.draw(len(T), 'history.t') for _ in range(k)]
        try:
            # every model of the batch starts from its own copy of the data: some
            # transformations (add_cmt, add_admid) modify the caller's DataFrame in place
            # (an immutability defect outside C12, see DESIGN.md O7) and must not leak into
            # the other models of the batch
            src = lin if (lin is not None and i % 7 == 3) else base0     # second corpus model
            rec['corpus'] = 'pheno_linear' if src is lin else 'pheno'
            base_i = src.replace(dataset=src.dataset.copy())
            A = _apply(base_i, T, hist, log)
            rec['history'] = log
            rec['A'] = _facts(A, ModelHash)
            if family == 'commute':
                if tape.draw(2, 'commute.kind'):
                    pool = [j for j in range(len(T)) if j >= COMMUTING_FROM and
                            not T[j][0].startswith(('set_iiv_on_ruv', 'set_power', 'add_effect', 'transform_blq',
                                                    'add_allometry'))]
                    i1 = pool[tape.draw(len(pool), 'commute.1')]
                    i2 = pool[tape.draw(len(pool), 'commute.2')]
                else:
                    i1, i2 = tape.draw(len(T), 'commute.1'), tape.draw(len(T), 'commute.2')
                l1, l2 = [], []
                X = _apply(A.replace(dataset=A.dataset.copy()), T, [i1, i2], l1)
                Y = _apply(A.replace(dataset=A.dataset.copy()), T, [i2, i1], l2)
                rec['pair'] = [l1, l2]
                rec['X'] = _facts(X, ModelHash)
                rec['Y'] = _facts(Y, ModelHash)
                rec['eq'] = bool(X == Y) and not any('!' in s for s in l1 + l2)
            elif family == 'rebuild':
                rb = _rebuild_ode(A, tape)
                if rb is not None:
                    B, perms = rb
                    rec['perms'] = perms
                    rec['X'] = rec['A']
                    rec['Y'] = _facts(B, ModelHash)
                    rec['eq'] = bool(A == B)
                    rec['same_code'] = rec['X']['code_sha'] == rec['Y']['code_sha']
            elif family == 'rename':
                di = A.datainfo.replace(path='/somewhere/else/data.csv')
                B = A.replace(name=f'other{i}', description='another description', datainfo=di)
                rec['X'] = rec['A']
                rec['Y'] = _facts(B, ModelHash)
                rec['must_equal'] = True
            elif family == 'differs':
                import pharmpy.modeling as pm
                which = tape.draw(12, 'differs.kind')
                names = A.parameters.names
                p = names[tape.draw(len(names), 'differs.par')]
                par = A.parameters[p]
                if which == 0:
                    B = pm.set_initial_estimates(A, {p: par.init * 1.01 + 1e-4})
                    rec['change'] = f'init of {p}'
                elif which == 1:
                    df = A.dataset.copy()
                    row = tape.draw(len(df), 'differs.row')
                    df.loc[df.index[row], 'WGT'] = df.iloc[row]['WGT'] + 0.5
                    B = A.replace(dataset=df)
                    rec['change'] = f'dataset row {row}'
                elif which == 2:
                    B = pm.add_estimation_step(A, 'FO')
                    rec['change'] = 'execution steps'
                elif which == 3:
                    B = pm.unfix_parameters(A, p) if par.fix else pm.fix_parameters(A, p)
                    rec['change'] = f'fix flag of {p}'
                elif which == 4:
                    B = pm.set_upper_bounds(A, {p: (par.init + 1.0) * 10 if par.upper > 1e10 else par.upper * 2 + 1})
                    rec['change'] = f'upper bound of {p}'
                elif which == 5:
                    B = pm.set_lower_bounds(A, {p: par.init - abs(par.init) - 1.0 if par.lower < -1e10
                                                else par.lower - abs(par.lower) * 0.5 - 0.001})
                    rec['change'] = f'lower bound of {p}'
                elif which == 6:
                    df = A.dataset.iloc[:-1].copy()
                    B = A.replace(dataset=df)
                    rec['change'] = 'last dataset row dropped'
                elif which == 7:
                    df = A.dataset.copy()
                    df['APGR'] = df['APGR'].astype('float64') + 0.0
                    df.loc[df.index[0], 'APGR'] = df.iloc[0]['APGR'] + 1.0
                    B = A.replace(dataset=df)
                    rec['change'] = 'value in a covariate column'
                elif which == 8:
                    st = A.statements
                    from pharmpy.model import Assignment
                    from pharmpy.basic import Expr
                    extra = Assignment.create(Expr.symbol('ZZEXTRA'), Expr.integer(1 + tape.draw(5, 'differs.val')))
                    B = A.replace(statements=st.before_odes + extra + st.ode_system + st.after_odes
                                  if st.ode_system is not None else st + extra)
                    rec['change'] = 'an extra statement'
                elif which in (10, 11):
                    # bounds of a FIXED parameter are content too (unfixing restores them)
                    A = pm.fix_parameters(A, p)
                    par = A.parameters[p]
                    rec['A'] = _facts(A, ModelHash)
                    if which == 10:
                        B = pm.set_upper_bounds(A, {p: (par.init + 1.0) * 10 if par.upper > 1e10
                                                    else par.upper * 2 + 1})
                    else:
                        B = pm.set_lower_bounds(A, {p: par.init - abs(par.init) - 1.0})
                    rec['change'] = f'bound of the fixed parameter {p}'
                else:
                    rvs = A.random_variables
                    vp = rvs.etas.variance_parameters if len(rvs.etas) else []
                    if vp:
                        q = vp[tape.draw(len(vp), 'differs.omega')]
                        B = pm.set_initial_estimates(A, {q: A.parameters[q].init * 1.5 + 0.001})
                        rec['change'] = f'variance parameter {q}'
                    else:
                        B = pm.add_estimation_step(A, 'FO')
                        rec['change'] = 'execution steps'
                rec['X'] = rec['A']
                rec['Y'] = _facts(B, ModelHash)
                rec['must_differ'] = True
            elif family == 'unloaded':
                # models whose dataset is not loaded (ModelHash reads it through the datainfo
                # path): same columns, different files; the key must follow the file content
                # and must not depend on what was hashed before in this process
                from pharmpy.modeling import write_csv
                sdir = os.path.dirname(os.path.abspath(args.out))
                pa = os.path.join(sdir, f'u{os.getpid()}_{i}_a.csv')     # private to this node
                pb = os.path.join(sdir, f'u{os.getpid()}_{i}_b.csv')
                UA = write_csv(A, path=pa, force=True).replace(dataset=None)
                df = A.dataset.copy()
                row = tape.draw(len(df), 'unloaded.row')
                df.loc[df.index[row], 'WGT'] = df.iloc[row]['WGT'] + 0.5
                UB = write_csv(A.replace(dataset=df), path=pb, force=True).replace(dataset=None)
                order = tape.draw(2, 'unloaded.order')
                first, second = (UA, UB) if order == 0 else (UB, UA)
                k1 = str(ModelHash(first))
                k2 = str(ModelHash(second))
                k1_again = str(ModelHash(first))
                rec['X'] = {'key': k1, 'code_sha': 'unloaded'}
                rec['Y'] = {'key': k2, 'code_sha': 'unloaded'}
                rec['change'] = f'dataset file content (row {row}), dataset not loaded'
                rec['must_differ'] = True
                rec['again_same'] = k1 == k1_again
                for p_ in (pa, pb, pa.replace('.csv', '.datainfo'), pb.replace('.csv', '.datainfo')):
                    try:
                        os.unlink(p_)
                    except OSError:
                        pass
            if db is not None and family == 'plain':
                from pharmpy.workflows.hashing import ModelHash as MH
                if args.store:
                    m = A.replace(name=f'm{i}')
                    db.store_model(m)
                    rec['stored'] = True
                else:
                    # "retrievable by the key this node computed": the entry must be found under
                    # that key.  Whether the stored control stream parses back is C02's concern
                    # (e.g. set_ode_solver('LSODA') writes code that does not re-parse): by-product.
                    kdir = os.path.join(str(db.path), rec['A']['key'])
                    found = any(os.path.isfile(os.path.join(kdir, f)) for f in ('model.ctl', 'model.mod'))
                    if not found:
                        rec['retrieved'] = 'ERR:entry not found under the key computed in this node'
                    else:
                        try:
                            back = db.retrieve_model(MH(rec['A']['key']))
                            rec['retrieved'] = _sha(back.code)
                        except KeyError as e:
                            rec['retrieved'] = f'ERR:{type(e).__name__}:{e}'[:200]
                        except Exception as e:
                            rec['retrieved'] = 'found'
                            rec['reparse_error'] = f'{type(e).__name__}:{e}'[:200]
        except Exception as e:
            import traceback
            rec['error'] = f'{type(e).__name__}: {e}'[:300]
            rec['trace'] = traceback.format_exc()[-600:]
        out.append(rec)
    if args.start == 0:
        # fixed regression scenario for known finding F6: DEPOT -> CENTRAL -> PERIPHERAL system
        # rebuilt with compartments and flows added in reverse order
        rec = {'index': -1, 'family': 'rebuild', 'history': ['set_first_order_absorption',
                                                            'add_peripheral_compartment']}
        try:
            import pharmpy.modeling as pm

            class _Rev:
                def permutation(self, n, label=None):
                    return list(range(n - 1, -1, -1))
            base = base0.replace(dataset=base0.dataset.copy())
            A = pm.add_peripheral_compartment(pm.set_first_order_absorption(base))
            B, perms = _rebuild_ode(A, _Rev())
            rec['perms'] = perms
            rec['A'] = _facts(A, ModelHash)
            rec['X'] = rec['A']
            rec['Y'] = _facts(B, ModelHash)
            rec['eq'] = bool(A == B)
            rec['same_code'] = rec['X']['code_sha'] == rec['Y']['code_sha']
        except Exception as e:
            rec['error'] = f'{type(e).__name__}: {e}'[:300]
        out.append(rec)
        # fixed regression scenario for finding F9 (repaired): bounds given as int by
        # set_upper_bounds vs re-created as float by fix_parameters, in both orders
        rec = {'index': -2, 'family': 'commute', 'history': [],
               'pair': [['upper(POP_CL)', 'fix(POP_CL)'], ['fix(POP_CL)', 'upper(POP_CL)']]}
        try:
            import pharmpy.modeling as pm
            base = base0.replace(dataset=base0.dataset.copy())
            X = pm.fix_parameters(pm.set_upper_bounds(base, {'POP_CL': 10}), 'POP_CL')
            Y = pm.set_upper_bounds(pm.fix_parameters(base, 'POP_CL'), {'POP_CL': 10})
            rec['A'] = _facts(base, ModelHash)
            rec['X'] = _facts(X, ModelHash)
            rec['Y'] = _facts(Y, ModelHash)
            rec['eq'] = bool(X == Y)
        except Exception as e:
            rec['error'] = f'{type(e).__name__}: {e}'[:300]
        out.append(rec)
    if args.start == 0:
        # fixed regression scenario for finding F11 (repaired): the parameter behind CL was
        # picked from a set of names, i.e. by PYTHONHASHSEED
        rec = {'index': -3, 'family': 'plain',
               'history': ['remove_iiv(CL)', 'set_transit_compartments(2)', 'set_mixed_mm_fo_elimination']}
        try:
            import pharmpy.modeling as pm
            b3 = base0.replace(dataset=base0.dataset.copy())
            M3 = pm.set_mixed_mm_fo_elimination(pm.set_transit_compartments(pm.remove_iiv(b3, 'CL'), 2))
            rec['A'] = _facts(M3, ModelHash)
        except Exception as e:
            rec['error'] = f'{type(e).__name__}: {e}'[:300]
        out.append(rec)
    if args.start == 0:
        # fixed regression scenario for finding F12: CompartmentalSystem.subs relabelled the
        # compartments in the iteration order of a set
        rec = {'index': -4, 'family': 'plain',
               'history': ['iv+oral dose into CENTRAL', 'add_peripheral_compartment',
                           'add_peripheral_compartment', 'rename_symbols(AMT)']}
        try:
            import pharmpy.modeling as pm
            b4 = base0.replace(dataset=base0.dataset.copy())
            M4 = pm.rename_symbols(pm.add_peripheral_compartment(pm.add_peripheral_compartment(
                _ivoral(b4))), {'AMT': 'DOSE'})
            rec['A'] = _facts(M4, ModelHash)
        except Exception as e:
            rec['error'] = f'{type(e).__name__}: {e}'[:300]
        out.append(rec)
    del stored
    out.sort(key=lambda r: (r['index'] < 0, r['index'] if r['index'] >= 0 else -r['index']))
    with open(args.out, 'w') as fh:
        json.dump(out, fh)
    return 0


# --------------------------------------------------------------------------
# coordinator side
# --------------------------------------------------------------------------
def run_node(hashseed, batch, start, count, out, store=None, retrieve=None, env_extra=None, order='identity'):
    env = dict(os.environ)
    env['PYTHONHASHSEED'] = str(hashseed)
    env['VERIF_NO_REEXEC'] = '1'
    if env_extra:
        env.update(env_extra)
    cmd = [PY, os.path.abspath(__file__), '--node', '--batch', str(batch), '--start', str(start),
           '--count', str(count), '--out', out, '--order', order]
    if store:
        cmd += ['--store', store]
    if retrieve:
        cmd += ['--retrieve', retrieve]
    return subprocess.Popen(cmd, env=env, stdout=subprocess.PIPE, stderr=subprocess.PIPE, text=True)


def load_known():
    path = os.path.join(VERIF, 'known_findings.json')
    with open(path) as fh:
        return [k for k in json.load(fh).get('findings', []) if k.get('property') == PROP]


def compare(batch, nodes_out, hashseeds):
    """Returns list of violations (signature, detail, index)."""
    viol = []
    ref = nodes_out[0]
    n = len(ref)
    stats = {'models': 0, 'pairs_equal': 0, 'pairs_not_equal': 0, 'rename_pairs': 0, 'differ_pairs': 0,
             'node_comparisons': 0, 'retrieved_across_nodes': 0}

    def strip(rec):
        r = {k: v for k, v in rec.items() if k not in ('stored', 'retrieved', 'trace', 'reparse_error')}
        return r

    for j in range(n):
        a = ref[j]
        stats['models'] += 1
        if 'error' in a:
            # a transformation refused this particular combination (e.g. fixing one parameter of
            # a joint block): not a model to hash.  Skipped when every node says the same,
            # counted as a by-product when the nodes disagree.
            if all(o[j].get('error') == a['error'] for o in nodes_out[1:]):
                stats['skipped_models'] = stats.get('skipped_models', 0) + 1
            else:
                stats['byproduct_transformation_depends_on_hashseed'] = \
                    stats.get('byproduct_transformation_depends_on_hashseed', 0) + 1
            continue
        for ni, other in enumerate(nodes_out[1:], start=1):
            b = other[j]
            stats['node_comparisons'] += 1
            if strip(a) != strip(b):
                diff = sorted(k for k in set(a) | set(b) if strip(a).get(k) != strip(b).get(k))
                # same generated code but different dictionary form / key: the representation
                # leaks the configuration (C12).  Different code: the *transformation* produced
                # different content under another hash seed - not a property of the key.
                same_code = all(
                    not (isinstance(a.get(k), dict) and isinstance(b.get(k), dict)) or
                    a[k].get('code_sha') == b[k].get('code_sha') for k in ('A', 'X', 'Y')) and \
                    a.get('history') == b.get('history') and a.get('pair') == b.get('pair')
                if same_code:
                    viol.append(('C12/node-divergence/key',
                                 f'model {a["index"]} ({a["family"]}, history {a.get("history")}): '
                                 f'PYTHONHASHSEED={hashseeds[0]} and {hashseeds[ni]} give the same code but '
                                 f'disagree on {diff}', a['index']))
                else:
                    # the same history of public transformations built DIFFERENT content in the
                    # two nodes (other hash seed, other processing order): the key of "the model
                    # reached by these transformations" depends on the interpreter configuration
                    stats['content_divergences'] = stats.get('content_divergences', 0) + 1
                    hist_differs = a.get('history') != b.get('history') or a.get('pair') != b.get('pair')
                    viol.append(('C12/node-divergence/content',
                                 f'model {a["index"]} ({a["family"]}, history {a.get("history")}'
                                 f'{" / " + str(b.get("history")) if hist_differs else ""}): the nodes with '
                                 f'PYTHONHASHSEED={hashseeds[0]} and {hashseeds[ni]} (different processing '
                                 f'order) build models with different generated code and keys: {diff}',
                                 a['index']))
                break
            if 'reparse_error' in b:
                stats['byproduct_stored_model_does_not_reparse'] = \
                    stats.get('byproduct_stored_model_does_not_reparse', 0) + 1
            if 'retrieved' in b:
                stats['retrieved_across_nodes'] += 1
                if str(b['retrieved']).startswith('ERR'):
                    viol.append(('C12/cross-process-retrieve-failed',
                                 f'model {a["index"]} stored by the node with PYTHONHASHSEED={hashseeds[0]} '
                                 f'is not retrievable by key in the node with {hashseeds[ni]}: '
                                 f'{b["retrieved"]}', a['index']))
        fa = a.get('A', {})
        for side in ('A', 'X', 'Y'):
            f = a.get(side)
            if isinstance(f, dict) and (f.get('key_via_entry', f.get('key')) != f.get('key') or
                                        f.get('key_via_hash', f.get('key')) != f.get('key')):
                viol.append(('C12/key-depends-on-how-it-is-asked',
                             f'model {a["index"]}: ModelHash(model)={f.get("key")[:10]} but via ModelEntry '
                             f'{str(f.get("key_via_entry"))[:10]} / via ModelHash {str(f.get("key_via_hash"))[:10]}',
                             a['index']))
                break
        # by-products (the pure round-trip clauses of C12 are not claimed): counted only
        if fa.get('from_dict_eq') is not True:
            stats['byproduct_from_dict_not_equal'] = stats.get('byproduct_from_dict_not_equal', 0) + 1
        elif fa.get('from_dict_key') != fa.get('key'):
            viol.append(('C12/equal-models-different-key/from-dict',
                         f'model {a["index"]} history {a.get("history")}: from_dict(to_dict(M)) == M but '
                         f'its key {fa.get("from_dict_key")} != {fa.get("key")}', a['index']))
        if 'eq' in a:
            # Model.__eq__ ignores the dataset: "same content" also needs the same data
            if a['eq'] and a['X'].get('dataset_hash') == a['Y'].get('dataset_hash'):
                stats['pairs_equal'] += 1
                if a['X']['key'] != a['Y']['key']:
                    fam = 'construction-order' if a['family'] == 'rebuild' else 'transformation-order'
                    viol.append((f'C12/equal-models-different-key/{fam}',
                                 f'model {a["index"]} history {a.get("history")} '
                                 f'{a.get("pair") or a.get("perms")}: pharmpy reports X == Y '
                                 f'(same generated code: {a.get("same_code")}) but key(X)={a["X"]["key"][:10]} '
                                 f'key(Y)={a["Y"]["key"][:10]}', a['index']))
            else:
                stats['pairs_not_equal'] += 1
        if a.get('must_equal'):
            stats['rename_pairs'] += 1
            if a['X']['key'] != a['Y']['key']:
                viol.append(('C12/key-depends-on-name-or-path',
                             f'model {a["index"]}: name/description/path changed the key', a['index']))
        if a.get('again_same') is False:
            viol.append(('C12/key-depends-on-process-history',
                         f'model {a["index"]}: the same unloaded model hashed twice gives two keys',
                         a['index']))
        if a.get('must_differ'):
            stats['differ_pairs'] += 1
            if a['X']['key'] == a['Y']['key']:
                viol.append(('C12/different-content-same-key',
                             f'model {a["index"]}: changing {a.get("change")} did not change the key',
                             a['index']))
    return viol, stats


def run_batch(batch, count, hashseeds, scratch, env_extra=None, start=0, per_node_chunks=1):
    """Run all nodes (in parallel), return their outputs."""
    os.makedirs(scratch, exist_ok=True)
    dbdir = os.path.join(scratch, 'db')
    procs = []
    outs = []
    # node 0 stores; it must finish before node 1 retrieves
    chunk = -(-count // per_node_chunks)
    jobs = []
    for ni, hs in enumerate(hashseeds):
        for c in range(per_node_chunks):
            s = start + c * chunk
            n = min(chunk, start + count - s)
            if n <= 0:
                continue
            jobs.append((ni, hs, s, n, os.path.join(scratch, f'node{ni}_{c}.json')))
    first = [j for j in jobs if j[0] == 0]
    rest = [j for j in jobs if j[0] != 0]
    for (ni, hs, s, n, o) in first:
        procs.append((run_node(hs, batch, s, n, o, store=dbdir + f'_{s}', env_extra=env_extra), o))
    orders = ('identity', 'reversed', 'shuffled')
    for (ni, hs, s, n, o) in rest:
        if ni != 1:
            procs.append((run_node(hs, batch, s, n, o, env_extra=env_extra, order=orders[ni % 3]), o))
    errs = []
    for p, o in procs:
        so, se = p.communicate(timeout=3000)
        if p.returncode != 0:
            errs.append(f'node failed rc={p.returncode}: {se[-1500:]}')
    procs = []
    for (ni, hs, s, n, o) in rest:
        if ni == 1:
            procs.append((run_node(hs, batch, s, n, o, retrieve=dbdir + f'_{s}', env_extra=env_extra,
                                   order='reversed'), o))
    for p, o in procs:
        so, se = p.communicate(timeout=3000)
        if p.returncode != 0:
            errs.append(f'node failed rc={p.returncode}: {se[-1500:]}')
    if errs:
        return None, errs
    for ni, hs in enumerate(hashseeds):
        merged = []
        for (nj, _, s, n, o) in sorted(jobs, key=lambda j: j[2]):
            if nj == ni:
                with open(o) as fh:
                    merged.extend(json.load(fh))
        outs.append(merged)
    return outs, []


def main(argv):
    ap = argparse.ArgumentParser()
    ap.add_argument('--tier', default=os.environ.get('VERIF_TIER', 'quick'))
    ap.add_argument('--seed', type=int, default=int(os.environ.get('VERIF_SEED', '1')))
    ap.add_argument('--replay')
    ap.add_argument('--count', type=int)
    ap.add_argument('--no-evidence', action='store_true')
    ap.add_argument('--no-minimise', action='store_true')   # accepted for uniformity
    ap.add_argument('--runs', type=int)
    args = ap.parse_args(argv)
    if args.runs and not args.count:
        args.count = args.runs
    t0 = time.time()
    scratch = f'/dev/shm/verif-c12-{os.getpid():07d}'
    try:
        if args.replay:
            with open(args.replay) as fh:
                doc = json.load(fh)
            # the whole chunk the model belonged to is re-run (same processing orders), so that a
            # key that depends on the process history reproduces as well
            outs, errs = run_batch(doc['batch'], doc.get('chunk_count', 1), doc['hashseeds'], scratch,
                                   start=doc.get('chunk_start', max(doc['index'], 0)))
            if errs:
                print('HARNESS-ERROR ' + '; '.join(errs))
                return 2
            viol, _ = compare(doc['batch'], outs, doc['hashseeds'])
            for sig, detail, idx in viol:
                print(f'  {sig}: {detail}')
            if any(sig == doc['signature'] and idx_ == doc['index'] for sig, _, idx_ in viol):
                print(f'VIOLATION property={PROP} replay={args.replay}')
                return 1
            print('replay: no violation')
            return 0
        if args.tier == 'thorough':
            count = args.count or 1600
            hashseeds = ['0', '1', '2', '3', '5', '42', '1234', '99999',
                         str(7919 * args.seed % 4294967295), '777', '31337', '4294967295']
            chunks = 2
        else:
            count = args.count or 180
            # six nodes: an order that depends on the hash seed in only two ways (two set elements)
            # escapes three nodes one time in four, six nodes one time in thirty-two
            hashseeds = ['0', '1', '2', '42', str((7919 * args.seed + 13) % 4294967295), '777']
            chunks = 3
        outs, errs = run_batch(args.seed, count, hashseeds, scratch, per_node_chunks=chunks)
        if errs:
            for e in errs:
                print('HARNESS-ERROR ' + e)
            return 2
        viol, stats = compare(args.seed, outs, hashseeds)
        known = load_known()
        by_sig = {}
        for sig, detail, idx in viol:
            by_sig.setdefault(sig, []).append((idx, detail))
        rc = 0
        os.makedirs(os.path.join(VERIF, 'replays'), exist_ok=True)
        new = 0
        known_seen = []
        for sig, items in sorted(by_sig.items()):
            idx, detail = min(items)
            path = os.path.join(VERIF, 'replays', f'{PROP}-{sig.split("/", 1)[1].replace("/", "_")}-'
                                                  f'{args.seed}-{idx}.json')
            with open(path, 'w') as fh:
                csize = -(-count // chunks)
                cstart = (max(idx, 0) // csize) * csize
                json.dump({'property': PROP, 'batch': args.seed, 'index': idx, 'hashseeds': hashseeds,
                           'chunk_start': cstart, 'chunk_count': min(csize, count - cstart),
                           'signature': sig, 'detail': detail,
                           'record': next((r for r in outs[0] if r['index'] == idx), None)}, fh, indent=1)
            # confirm in fresh processes
            p = subprocess.run([PY, os.path.join(VERIF, 'bin', 'check'), PROP, '--replay', path],
                               capture_output=True, text=True, env=dict(os.environ, VERIF_NO_REEXEC='1'))
            if p.returncode != 1:
                print(f'HARNESS-ERROR fresh-process replay did not reproduce {sig}: rc={p.returncode} '
                      f'{p.stdout[-500:]} {p.stderr[-500:]}')
                rc = max(rc, 2)
                continue
            kf = next((k for k in known if k.get('status') == 'open' and k.get('signature') == sig), None)
            if kf is not None:
                print(f'KNOWN-FINDING: property={PROP} {kf["what"]} [signature={sig} seen for '
                      f'{len(items)} models, replay={path}]')
                known_seen.append(sig)
            else:
                print(f'  {sig}: {detail}  (seen for {len(items)} models)')
                print(f'VIOLATION property={PROP} replay={path}')
                new += 1
                rc = 1
        wall = time.time() - t0
        if not args.no_evidence:
            samples = []
            for r in outs[0][:400]:
                if r.get('family') in ('commute', 'rebuild') and 'eq' in r and len(samples) < 3:
                    samples.append({k: r.get(k) for k in ('index', 'family', 'history', 'pair', 'perms', 'eq')}
                                   | {'keyX': r['X']['key'], 'keyY': r['Y']['key']})
            distinct = len({r.get('A', {}).get('dict_sha') for r in outs[0]})
            ev = {
                'property_id': PROP, 'tier': args.tier if args.tier in ('quick', 'thorough') else 'quick',
                'seed': args.seed, 'level': 'exploration',
                'coverage': {
                    'evaluations': stats['models'] * len(hashseeds),
                    'distinct_nontrivial': distinct,
                    'rule': ('one evaluation = one model of the batch rebuilt in one node (fresh interpreter '
                             'with its own PYTHONHASHSEED) from the shared tape: pheno + a seeded history of '
                             '<=4 public transformations, in five families (plain+stored/retrieved across '
                             'nodes, two commuting orders, ODE system rebuilt in a drawn order, renamed/'
                             'repathed, content changed); distinct = distinct dictionary forms reached; all '
                             'of them are non-trivial (a transformed model, compared across >=3 nodes)'),
                    'samples': samples or [outs[0][0]],
                    'nodes': len(hashseeds), 'hashseeds': hashseeds, 'models_per_node': stats['models'],
                    'node_comparisons': stats['node_comparisons'],
                    'pairs_reported_equal_by_pharmpy': stats['pairs_equal'],
                    'pairs_not_equal': stats['pairs_not_equal'],
                    'rename_pairs': stats['rename_pairs'], 'differ_pairs': stats['differ_pairs'],
                    'entries_retrieved_by_key_in_another_node': stats['retrieved_across_nodes'],
                    'byproduct_from_dict_not_equal': stats.get('byproduct_from_dict_not_equal', 0),
                    'skipped_models': stats.get('skipped_models', 0),
                    'byproduct_transformation_depends_on_hashseed':
                        stats.get('byproduct_transformation_depends_on_hashseed', 0),
                    'byproduct_examples': stats.get('byproduct_examples', [])[:5],
                    'byproduct_stored_model_does_not_reparse':
                        stats.get('byproduct_stored_model_does_not_reparse', 0),
                    'known_findings_seen': known_seen,
                    'runs_per_hour': int(stats['models'] * len(hashseeds) / wall * 3600),
                    'components': {'real': ['whole pharmpy in every node (real interpreter processes)',
                                            'LocalModelDirectoryDatabase on tmpfs for the cross-node store'],
                                   'stub': []},
                },
                'assumptions': [
                    'only the configuration clause of C12 is decided here (hash seed, process, construction '
                    'order); from_dict/to_dict round trips are checked on the states reached as a by-product',
                    'content equality between two build histories is pharmpy\'s own Model.__eq__',
                ],
                'wall_s': round(wall, 2), 'violations': new,
            }
            with open(os.path.join(VERIF, 'evidence', f'{PROP}.json'), 'w') as fh:
                json.dump(ev, fh, indent=1, default=str)
        print(f'{PROP} {args.tier}: {stats["models"]} models x {len(hashseeds)} nodes, '
              f'{stats["pairs_equal"]} equal pairs, {wall:.1f}s wall, rc={rc}')
        return rc
    finally:
        shutil.rmtree(scratch, ignore_errors=True)


if __name__ == '__main__':
    if '--node' in sys.argv:
        ap = argparse.ArgumentParser()
        ap.add_argument('--node', action='store_true')
        ap.add_argument('--batch', type=int)
        ap.add_argument('--start', type=int)
        ap.add_argument('--count', type=int)
        ap.add_argument('--out')
        ap.add_argument('--store')
        ap.add_argument('--retrieve')
        ap.add_argument('--order', default='identity')
        sys.exit(node_main(ap.parse_args()))
    sys.exit(main(sys.argv[1:]))
