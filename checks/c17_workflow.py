"""C17 - workflows execute as their task graph specifies.

System under simulation: pharmpy's real Task / WorkflowBuilder / Workflow /
insert_context / execute_workflow / local_dask.run (threaded branch, and the
distributed branch on an in-process stub cluster) + dask's real get_async,
order and fuse, on a seeded worker pool and completion queue.  See DESIGN.md 5.3.
"""

from __future__ import annotations

import hashlib
import os
import uuid as _uuid

from sim.kernel import Kernel, SimAbort
from sim.simpool import DispatcherStuck, EventEnv, ThreadEnv
from sim.tape import Tape

PROP = 'C17'
_P = {}          # lazily imported pharmpy/dask objects


def prepare():
    if _P:
        return
    import dask
    import dask.config
    import dask.local
    import dask.threaded  # noqa
    import pharmpy.workflows as pw
    import pharmpy.workflows.dispatchers as disp
    import pharmpy.workflows.workflow as wfmod
    from pharmpy.model import Model
    from pharmpy.workflows.contexts import NullContext
    from pharmpy.workflows.dispatchers.local_dask import run as run_mod  # noqa
    import pharmpy.workflows.dispatchers.local_dask.run as runmod
    from pharmpy.workflows import LocalDirectoryContext
    _P.update(dask=dask, dask_local=dask.local, pw=pw, disp=disp, wfmod=wfmod, Model=Model,
              NullContext=NullContext, runmod=runmod, LocalDirectoryContext=LocalDirectoryContext)
    try:
        import dask.distributed as dd
        _P['dd'] = dd
    except Exception:  # pragma: no cover
        _P['dd'] = None
    _P['model'] = Model.create(name='static_model') if hasattr(Model, 'create') else Model()
    # equal content (Model.__eq__ ignores name and description), different identity and name
    _P['models'] = [_P['model'], Model.create(name='renamed_copy'),
                    Model.create(name='third', description='other description')]
    # model entries (execute_workflow's rewrite of static inputs only looks at Model objects):
    # equal content, different identity and model name
    from pharmpy.workflows import ModelEntry
    _P['ModelEntry'] = ModelEntry
    _P['models'] += [ModelEntry.create(_P['models'][0]), ModelEntry.create(_P['models'][1])]


# --------------------------------------------------------------------------
# run classes
# --------------------------------------------------------------------------
def config_for(i, tier='quick'):
    classes = [
        dict(mode='event', fault='none', branch='threaded'),
        dict(mode='event', fault='none', branch='threaded'),
        dict(mode='thread', fault='none', branch='threaded'),
        dict(mode='event', fault='task', branch='threaded'),
        dict(mode='event', fault='none', branch='distributed'),
        dict(mode='thread', fault='task', branch='threaded'),
        dict(mode='event', fault='task', branch='distributed'),
        dict(mode='thread', fault='none', branch='distributed'),
        dict(mode='event', fault='abort', branch='distributed'),
        # a real LocalDirectoryContext on disk: context-taking tasks log through it, the result
        # of the workflow may be a Results object that execute_workflow stores in the context
        dict(mode='event', fault='none', branch='threaded', ctx='disk'),
        dict(mode='thread', fault='none', branch='distributed', ctx='disk'),
        dict(mode='thread', fault='task', branch='threaded', ctx='disk'),
    ]
    return dict(classes[i % len(classes)])


def hash_sensitive(cfg):
    # dask.optimization.fuse iterates sets of string keys: in the distributed branch the
    # fused graph (hence the completion order) legitimately depends on PYTHONHASHSEED.
    # Runs and replays are pinned to PYTHONHASHSEED=0 by bin/check.
    # Also dask.local's bookkeeping iterates sets of keys in a few places (threaded branch,
    # seen in ~2% of runs).  The verdicts are still compared across hash seeds.
    return True


def class_name(cfg):
    return f"mode={cfg['mode']},fault={cfg['fault']},branch={cfg['branch']}" + \
        (',ctx=disk' if cfg.get('ctx') == 'disk' else '')


# --------------------------------------------------------------------------
# task function family
# --------------------------------------------------------------------------
class InjectedTaskFailure(Exception):
    def __init__(self, sig):
        super().__init__(sig)
        self.sig = sig


class _Run:
    """Per-execution state the task functions talk to."""

    def __init__(self):
        self.calls = []        # (seq, 'start'|'end', fname, argsig, value)
        self.seq = 0
        self.fail_sigs = frozenset()
        self.kernel = None
        self.tape = None
        self.ctx_obj = None
        self.disk = False       # ctx_obj is a real LocalDirectoryContext
        self.logged = []        # (start seq, end seq, message) of every log call made by a task
        self.wrap_value = None  # the task returning this value wraps it into a Results object


_CUR = [None]
_FUNCS = {}


def enc(x):
    """Stable text form of a static input or argument."""
    M = _P.get('Model')
    if M is not None and isinstance(x, M):
        return f'Model:{x.name}'
    ME = _P.get('ModelEntry')
    if ME is not None and isinstance(x, ME):
        return f'ModelEntry:{x.model.name}'
    if _CUR[0] is not None and _CUR[0].ctx_obj is not None and x is _CUR[0].ctx_obj:
        return 'CTX'
    if _CUR[0] is not None and _CUR[0].ctx_obj is None and _CUR[0].disk and \
            isinstance(x, _P['LocalDirectoryContext']):
        # the default context execute_workflow created itself (context=None): adopt it
        _CUR[0].ctx_obj = x
        return 'CTX'
    if isinstance(x, tuple):
        if len(x) == 2 and x[0] == 'sub' and isinstance(x[1], tuple):
            return f'(sub,{x[1][1]})'
        return '(' + ','.join(enc(e) for e in x) + ')'
    if isinstance(x, list):
        return '[' + ','.join(enc(e) for e in x) + ']'
    if isinstance(x, dict):
        return '{' + ','.join(f'{enc(k)}:{enc(v)}' for k, v in x.items()) + '}'
    return repr(x)


def value_of(fname, argsigs):
    h = hashlib.sha1(repr((fname, tuple(argsigs))).encode()).hexdigest()[:12]
    return f'v:{h}'


def _call(fname, args):
    run = _CUR[0]
    argsigs = tuple(enc(a) for a in args)
    sig = (fname, argsigs)
    run.seq += 1
    run.calls.append((run.seq, 'start', fname, argsigs, None))
    k = run.kernel
    if k is not None:
        n = run.tape.draw(3, 'task.holds')
        for _ in range(n):
            k.yield_point('task.hold')
    if sig in run.fail_sigs:
        run.seq += 1
        run.calls.append((run.seq, 'fail', fname, argsigs, None))
        raise InjectedTaskFailure(sig)
    v = value_of(fname, argsigs)
    if run.disk and args and run.ctx_obj is not None and args[0] is run.ctx_obj:
        # a context-taking task logs through the real context (message with quotes and commas)
        msg = f'task|{fname}|' + ','.join(f'"{a}"' for a in argsigs)
        s0 = run.seq
        getattr(args[0], ('log_info', 'log_warning', 'log_error')[len(argsigs) % 3])(msg)
        run.logged.append((s0, run.seq + 1, msg, ('info', 'warning', 'error')[len(argsigs) % 3]))
    run.seq += 1
    run.calls.append((run.seq, 'end', fname, argsigs, v))
    if run.wrap_value is not None and v == run.wrap_value:
        return _wrap_results(v)
    return v


def _wrap_results(v):
    """The workflow's result as a tool Results object (execute_workflow stores those)."""
    import pandas as pd
    from pharmpy.tools.linearize.results import LinearizeResults
    return LinearizeResults(ofv=pd.DataFrame({'ofv': [1.5, -2.25]}, index=[v, 'second "row", with comma']),
                            iofv=pd.DataFrame({'base': [1.0, 2.0], 'lin': [1.125, 2.5]},
                                              index=pd.Index([1, 2], name='ID')))


def get_fn(i, ctxful):
    key = (i, ctxful)
    fn = _FUNCS.get(key)
    if fn is None:
        if ctxful == 'lookalike':
            # first parameter is NOT called 'context': must not get the context prepended
            def fn(contextual_arg, *args, _name=f'k{i}'):
                return _call(_name, (contextual_arg,) + args)
        elif ctxful == 'second':
            # 'context' is a parameter name, but not the first one: no context is inserted
            def fn(first, context=None, *args, _name=f'q{i}'):
                return _call(_name, (first, context) + args)
        elif ctxful in ('method', 'callable', 'wrapped'):
            # context-taking callables that are not plain functions: a bound method, an object
            # with __call__, a functools.wraps-decorated function (signature follows __wrapped__)
            import functools
            nm = {'method': 'm', 'callable': 'c', 'wrapped': 'w'}[ctxful] + str(i)

            class _Obj:
                def meth(self, context, *args):
                    return _call(nm, (context,) + args)

                def __call__(self, context, *args):
                    return _call(nm, (context,) + args)

            if ctxful == 'method':
                fn = _Obj().meth
            elif ctxful == 'callable':
                fn = _Obj()
            else:
                def plainfn(context, *args):
                    return _call(nm, (context,) + args)

                @functools.wraps(plainfn)
                def fn(*a, **k):
                    return plainfn(*a, **k)
        elif ctxful == 'posonly':
            # 'context' as a positional-only first parameter: still the first parameter
            ns = {}
            exec(f"def fn(context, /, *args, _name='o{i}'):\n    return _call(_name, (context,) + args)\n",
                 {'_call': _call}, ns)
            fn = ns['fn']
        elif ctxful == 'kwdefault':
            # a context-taking function with further defaulted / keyword-only parameters
            def fn(context, *args, flag=False, _name=f'd{i}'):
                return _call(_name, (context,) + args)
        elif ctxful == 'partial':
            import functools

            def inner(tag, *args, _name=f'p{i}'):
                return _call(_name, (tag,) + args)
            fn = functools.partial(inner, 'bound')
        elif ctxful:
            def fn(context, *args, _name=f'g{i}'):
                return _call(_name, (context,) + args)
            # keep the signature inspectable: first parameter is named 'context'
        else:
            def fn(*args, _name=f'f{i}'):
                return _call(_name, args)
        try:
            fn.__name__ = {True: f'g{i}', False: f'f{i}', 'lookalike': f'k{i}',
                           'second': f'q{i}', 'posonly': f'o{i}', 'kwdefault': f'd{i}'}.get(ctxful, f'p{i}')
        except AttributeError:
            pass
        _FUNCS[key] = fn
    return fn


_SUBS = {}       # sub id -> (real Workflow, mirror, world) for dynamically called workflows


def _call_sub(fname, args):
    """A task that dynamically calls a sub-workflow through context.call_workflow
    (dispatchers/local_dask/call.py) and folds its result into its own value."""
    run = _CUR[0]
    argsigs = tuple(enc(a) for a in args)
    run.seq += 1
    run.calls.append((run.seq, 'start', fname, argsigs, None))
    marker = next(a for a in args if isinstance(a, tuple) and len(a) == 2 and a[0] == 'sub')
    wf = _SUBS[marker[1]][0]
    context = args[0]
    k = run.kernel
    if k is not None:
        k.yield_point('task.hold')
    run.ncalls_sub = getattr(run, 'ncalls_sub', 0) + 1
    sub = context.call_workflow(wf, f'sub-{marker[1][1]}-{run.ncalls_sub}')
    v = value_of(fname, argsigs + (enc(sub),))
    run.seq += 1
    run.calls.append((run.seq, 'end', fname, argsigs, v))
    if run.wrap_value is not None and v == run.wrap_value:
        return _wrap_results(v)
    return v


def _call_abort(fname, args):
    """A task that aborts the whole workflow through context.abort_workflow (closes the
    dask client; run() must then return None)."""
    run = _CUR[0]
    argsigs = tuple(enc(a) for a in args)
    run.seq += 1
    run.calls.append((run.seq, 'start', fname, argsigs, None))
    run.aborted = True
    args[0].abort_workflow('stop everything')
    v = value_of(fname, argsigs)
    run.seq += 1
    run.calls.append((run.seq, 'end', fname, argsigs, v))
    return v


def get_abort_fn(i):
    key = ('a', i)
    fn = _FUNCS.get(key)
    if fn is None:
        def fn(context, *args, _name=f'a{i}'):
            return _call_abort(_name, (context,) + args)
        fn.__name__ = f'a{i}'
        _FUNCS[key] = fn
    return fn


def get_caller_fn(i):
    key = ('h', i)
    fn = _FUNCS.get(key)
    if fn is None:
        def fn(context, *args, _name=f'h{i}'):
            return _call_sub(_name, (context,) + args)
        fn.__name__ = f'h{i}'
        _FUNCS[key] = fn
    return fn


# --------------------------------------------------------------------------
# the ordered-DAG mirror of the builder semantics
# --------------------------------------------------------------------------
class Mirror:
    def __init__(self):
        self.nodes = []        # task uids in order of entry
        self.edges = set()     # (u, v)

    def copy(self):
        m = Mirror()
        m.nodes = list(self.nodes)
        m.edges = set(self.edges)
        return m

    def add_task(self, t, preds):
        if t not in self.nodes:
            self.nodes.append(t)
        for p in preds:
            self.edges.add((p, t))

    def replace(self, old, new):
        if old == new:
            return
        self.nodes.remove(old)
        self.nodes.append(new)
        self.edges = {(new if u == old else u, new if v == old else v) for (u, v) in self.edges}

    def compose(self, other):
        for n in other.nodes:
            if n not in self.nodes:
                self.nodes.append(n)
        self.edges |= other.edges

    def inputs(self):
        tgt = {v for (_, v) in self.edges}
        return [n for n in self.nodes if n not in tgt]

    def outputs(self):
        src = {u for (u, _) in self.edges}
        return [n for n in self.nodes if n not in src]

    def preds(self, t):
        return [u for u in self.nodes if (u, t) in self.edges]

    def succs(self, t):
        return [v for v in self.nodes if (t, v) in self.edges]

    def ancestors(self, t):
        seen = set()
        stack = [t]
        while stack:
            x = stack.pop()
            for u in self.preds(x):
                if u not in seen:
                    seen.add(u)
                    stack.append(u)
        return seen


# --------------------------------------------------------------------------
# workload: builder operations on the real builder and on the mirror
# --------------------------------------------------------------------------
STATIC_SIMPLE = [1, 2, 7, 0.5, 'a', 'b', None, (1, 2), ('x', 3), True, 't1', 't0-x', (),
                 # strings that look like predictable graph keys (task name + position / counter): a
                 # static input equal to a key of the dask graph is read by dask as a reference
                 't0-1', 't1-2', 't0-0', 't2-3', 't0', 'wf-t1']


class Violation(Exception):
    def __init__(self, cls, detail):
        super().__init__(detail)
        self.cls = cls
        self.detail = detail


def fname_of(sp):
    if sp.get('caller'):
        return 'h' + str(sp['fi'])
    if sp.get('aborter'):
        return 'a' + str(sp['fi'])
    fk = sp.get('fkind', 'ctx' if sp['ctxful'] else 'plain')
    return {'plain': 'f', 'ctx': 'g', 'lookalike': 'k', 'partial': 'p', 'second': 'q', 'method': 'm',
            'callable': 'c', 'wrapped': 'w', 'posonly': 'o', 'kwdefault': 'd'}[fk] + str(sp['fi'])


def prefix_of(sp):
    if sp['ctxful']:
        return ['CTX']
    if sp.get('fkind') == 'partial':
        return ["'bound'"]
    return []


class World:
    def __init__(self, tape, stats):
        self.tape = tape
        self.stats = stats
        self.tasks = {}       # uid -> real Task
        self.spec = {}        # uid -> dict(name, fi, ctxful, static)
        self.next_uid = 0
        self.ops = []         # textual op log (for samples / decode)
        self.uses_results_string = False
        self.allow_results = True
        self.allow_sub = False
        self.allow_abort = False
        self.has_aborter = False
        self.in_sub = False
        self.subs = {}

    def count(self, key, n=1):
        self.stats[key] = self.stats.get(key, 0) + n

    def gen_static(self):
        t = self.tape
        n = t.weighted([(3, 0), (4, 1), (2, 2), (1, 3)], 'nstatic')
        out = []
        for _ in range(n):
            kind = t.weighted([(20, 'simple'), (3, 'model'), (2, 'list'), (1, 'dict')], 'static.kind')
            if t.draw(400, 'static.results') == 399 and self.allow_results:
                # known finding F8; only in the threaded branch (the distributed branch
                # hangs inside dask.optimization.fuse on the resulting cycle)
                kind = 'results'
            if kind == 'simple':
                out.append(STATIC_SIMPLE[t.draw(len(STATIC_SIMPLE), 'static.val')])
            elif kind == 'model':
                out.append(_P['models'][t.draw(len(_P['models']), 'static.model')])
            elif kind == 'list':
                out.append([1, 'a'])
            elif kind == 'dict':
                out.append({'k': 1})
            else:
                out.append('results')
        return tuple(out)

    def new_task(self, like=None):
        t = self.tape
        uid = self.next_uid
        self.next_uid += 1
        if like is not None and t.draw(2, 'replace.keep') == 0:
            sp = dict(self.spec[like])
            if t.draw(2, 'replace.newstatic'):
                st = self.gen_static()
                if sp.get('caller'):
                    st = (sp['static'][0],) + tuple(x for x in st if x != 'results')
                if sp.get('fkind') == 'lookalike':
                    st = ('L',) + tuple(st)
                if sp.get('fkind') == 'second':
                    st = ('F', 'S') + tuple(st)
                sp['static'] = st
        else:
            fk = t.weighted([(12, 'plain'), (5, 'ctx'), (1, 'lookalike'), (1, 'partial'), (1, 'second'),
                             (1, 'method'), (1, 'callable'), (1, 'wrapped'), (1, 'posonly'),
                             (1, 'kwdefault')], 'fkind')
            st = self.gen_static()
            if fk == 'lookalike':
                st = ('L',) + tuple(st)       # its first (positional) parameter needs a value
            if fk == 'second':
                st = ('F', 'S') + tuple(st)   # values for `first` and for the parameter named context
            sp = {'name': ('t0', 't1', 't2', 't3', 't0-x', 'results-x')[t.draw(6, 'name')], 'fi': t.draw(5, 'fn'),
                  'ctxful': fk in ('ctx', 'method', 'callable', 'wrapped', 'posonly', 'kwdefault'),
                  'fkind': fk, 'static': st}
        Task = _P['pw'].Task
        if like is None and self.allow_sub and not self.in_sub and t.draw(7, 'caller') == 6:
            # a task that calls a small sub-workflow dynamically (distributed branch only)
            self.in_sub = True
            try:
                sub_wb, sub_m = small_workflow(self, max_tasks=3)
                outs = sub_m.outputs()
                if len(outs) > 1:
                    j = self.new_task()
                    sub_wb.add_task(self.tasks[j], predecessors=[self.tasks[p] for p in outs])
                    sub_m.add_task(j, outs)
            finally:
                self.in_sub = False
            sid = len(_SUBS_LOCAL(self))
            self.subs[sid] = (_P['pw'].Workflow(sub_wb), sub_m)
            sp = {'name': sp['name'], 'fi': sp['fi'], 'ctxful': True, 'caller': True, 'sub': sid,
                  'static': (('sub', (id(self), sid)),) + tuple(x for x in sp['static'] if x != 'results')}
            _SUBS[(id(self), sid)] = (self.subs[sid][0], sub_m, self)
            self.spec[uid] = sp
            self.tasks[uid] = Task(sp['name'], get_caller_fn(sp['fi']), *sp['static'])
            self.count('op.caller_task')
            return uid
        if sp.get('caller'):
            self.spec[uid] = sp
            self.tasks[uid] = Task(sp['name'], get_caller_fn(sp['fi']), *sp['static'])
            return uid
        if like is None and self.allow_abort and not self.in_sub and not self.has_aborter and \
                t.draw(5, 'aborter') == 4:
            self.has_aborter = True
            sp = {'name': sp['name'], 'fi': sp['fi'], 'ctxful': True, 'fkind': 'ctx', 'aborter': True,
                  'static': tuple(x for x in sp['static'] if x != 'results' and x != 'L' and x != 'F')}
            self.spec[uid] = sp
            self.tasks[uid] = Task(sp['name'], get_abort_fn(sp['fi']), *sp['static'])
            self.count('op.aborter_task')
            return uid
        if sp.get('aborter'):
            self.spec[uid] = sp
            self.tasks[uid] = Task(sp['name'], get_abort_fn(sp['fi']), *sp['static'])
            return uid
        self.spec[uid] = sp
        fk = sp.get('fkind', 'ctx' if sp['ctxful'] else 'plain')
        self.tasks[uid] = Task(sp['name'], get_fn(sp['fi'], {'plain': False, 'ctx': True}.get(fk, fk)),
                               *sp['static'])
        return uid

    def describe(self, uid):
        sp = self.spec[uid]
        fn = fname_of(sp)
        return f"#{uid}:{sp['name']}={fn}({','.join(enc(s) for s in sp['static'])})"


def _SUBS_LOCAL(world):
    return world.subs


def compare(world, real, mirror, op):
    """The real builder/workflow must have exactly the declared tasks and edges."""
    T = world.tasks
    rt = real.tasks
    if len(rt) != len(set(map(id, rt))) or {id(x) for x in rt} != {id(T[u]) for u in mirror.nodes}:
        raise Violation(f'builder-mismatch/{op}/tasks',
                        f'after {op}: tasks {[repr(x) for x in rt]} != declared '
                        f'{[world.describe(u) for u in mirror.nodes]}')
    if len(real) != len(mirror.nodes):
        raise Violation(f'builder-mismatch/{op}/len', f'len {len(real)} != {len(mirror.nodes)}')
    for u in mirror.nodes:
        rp = {id(x) for x in real.get_predecessors(T[u])}
        mp = {id(T[p]) for p in mirror.preds(u)}
        if rp != mp:
            raise Violation(f'builder-mismatch/{op}/edges',
                            f'after {op}: predecessors of {world.describe(u)} are '
                            f'{[repr(x) for x in real.get_predecessors(T[u])]}, declared '
                            f'{[world.describe(p) for p in mirror.preds(u)]}')
        rs = {id(x) for x in real.get_successors(T[u])}
        ms = {id(T[p]) for p in mirror.succs(u)}
        if rs != ms:
            raise Violation(f'builder-mismatch/{op}/edges',
                            f'after {op}: successors of {world.describe(u)} differ')
    if {id(x) for x in real.input_tasks} != {id(T[u]) for u in mirror.inputs()}:
        raise Violation(f'builder-mismatch/{op}/inputs', f'after {op}: input_tasks differ')
    if {id(x) for x in real.output_tasks} != {id(T[u]) for u in mirror.outputs()}:
        raise Violation(f'builder-mismatch/{op}/outputs', f'after {op}: output_tasks differ')
    if mirror.nodes:
        u = mirror.nodes[world.tape.draw(len(mirror.nodes), 'upstream.probe')]
        ru = {id(x) for x in real.get_upstream_tasks(T[u])}
        mu = {id(T[p]) for p in mirror.ancestors(u)}
        if ru != mu:
            raise Violation(f'builder-mismatch/{op}/upstream',
                            f'after {op}: upstream tasks of {world.describe(u)} differ')


def small_workflow(world, max_tasks=4):
    """A fresh little workflow (and its mirror) to insert or add."""
    t = world.tape
    pw = _P['pw']
    wb = pw.WorkflowBuilder(name='sub')
    m = Mirror()
    n = 1 + t.draw(max_tasks, 'sub.n')
    for _ in range(n):
        uid = world.new_task()
        k = t.weighted([(3, 0), (4, 1), (2, 2)], 'sub.npred')
        preds = []
        avail = list(m.nodes)
        for _ in range(min(k, len(avail))):
            p = avail.pop(t.draw(len(avail), 'sub.pred'))
            preds.append(p)
        _add(world, wb, m, uid, preds)
    return wb, m


def _add(world, wb, m, uid, preds):
    t = world.tape
    T = world.tasks
    if not preds:
        if t.draw(2, 'add.none'):
            wb.add_task(T[uid])
        else:
            wb.add_task(T[uid], predecessors=[])
    elif len(preds) == 1 and t.draw(2, 'add.single'):
        wb.add_task(T[uid], predecessors=T[preds[0]])
    else:
        wb.add_task(T[uid], predecessors=[T[p] for p in preds])
    m.add_task(uid, preds)


def build(world):
    """Random sequence of builder operations.  Returns (Workflow, mirror)."""
    t = world.tape
    pw = _P['pw']
    m = Mirror()
    if t.draw(4, 'ctor.tasks') == 3:
        # WorkflowBuilder(tasks=...): the initial, unconnected tasks given as any iterable
        uids = [world.new_task() for _ in range(1 + t.draw(3, 'ctor.n'))]
        objs = [world.tasks[u] for u in uids]
        kind = ('list', 'tuple', 'generator', 'map', 'iter')[t.draw(5, 'ctor.kind')]
        arg = {'list': lambda: list(objs), 'tuple': lambda: tuple(objs),
               'generator': lambda: (x for x in objs), 'map': lambda: map(lambda x: x, objs),
               'iter': lambda: iter(objs)}[kind]()
        wb = pw.WorkflowBuilder(tasks=arg, name='wf')
        for u in uids:
            m.add_task(u, [])
        world.ops.append(f'WorkflowBuilder(tasks=<{kind} of {uids}>)')
        world.count('op.ctor_tasks')
        compare(world, wb, m, 'WorkflowBuilder(tasks=...)')
    else:
        wb = pw.WorkflowBuilder(name='wf')
    nops = 2 + t.draw(16, 'nops')
    snaps = []
    for _ in range(nops):
        if len(m.nodes) >= 12:
            break
        op = t.weighted([(10, 'add'), (3, 'replace'), (3, 'insert'), (1, 'roundtrip'), (1, 'plus'),
                         (1, 'refused'), (1, 'readd'), (2, 'snapshot')], 'op')
        # Workflows frozen earlier are immutable values: later builder operations must not
        # change them
        for (snap, sm_, label) in snaps:
            compare(world, snap, sm_, 'earlier-frozen-workflow-changed')
        if op == 'add' or not m.nodes:
            uid = world.new_task()
            k = t.weighted([(2, 0), (5, 1), (4, 2), (2, 3), (1, 4)], 'npred')
            avail = list(m.nodes)
            preds = []
            for _ in range(min(k, len(avail))):
                preds.append(avail.pop(t.draw(len(avail), 'pred')))
            _add(world, wb, m, uid, preds)
            world.ops.append(f'add {world.describe(uid)} <- {preds}')
            world.count('op.add')
            if len(preds) >= 2:
                world.count('probe.join_task')
            compare(world, wb, m, 'add_task')
        elif op == 'replace':
            old = m.nodes[t.draw(len(m.nodes), 'replace.which')]
            new = world.new_task(like=old)
            wb.replace_task(world.tasks[old], world.tasks[new])
            m.replace(old, new)
            world.ops.append(f'replace #{old} -> {world.describe(new)}')
            world.count('op.replace')
            compare(world, wb, m, 'replace_task')
        elif op == 'insert':
            sub, sm = small_workflow(world, max_tasks=min(4, 12 - len(m.nodes)))
            other = pw.Workflow(sub)
            compare(world, other, sm, 'Workflow(builder)')
            mode = t.draw(3, 'insert.preds')
            outs = m.outputs()
            ins = sm.inputs()
            if mode == 0 or not m.nodes:
                chosen = None
                outp = outs
            elif mode == 1:
                p = m.nodes[t.draw(len(m.nodes), 'insert.single')]
                chosen = world.tasks[p]
                outp = [p]
            else:
                k = 1 + t.draw(min(3, len(m.nodes)), 'insert.k')
                avail = list(m.nodes)
                outp = [avail.pop(t.draw(len(avail), 'insert.p')) for _ in range(k)]
                chosen = [world.tasks[p] for p in outp]
            if len(ins) != len(outp) and len(ins) != 1 and len(outp) != 1:
                # N:M - must be refused; try it on a throw-away copy
                tmp = pw.WorkflowBuilder(pw.Workflow(wb))
                try:
                    tmp.insert_workflow(other, predecessors=chosen)
                except ValueError:
                    world.count('op.insert.refused')
                else:
                    raise Violation('nm-insert-not-refused',
                                    f'{len(outp)}:{len(ins)} insertion was accepted')
                for uid in sm.nodes:     # the sub-workflow was not inserted
                    pass
                continue
            wb.insert_workflow(other, predecessors=chosen)
            m.compose(sm)
            if len(ins) == len(outp):
                for i_, o_ in zip(ins, outp):
                    m.edges.add((o_, i_))
                shape = '1:1' if len(ins) == 1 else 'N:N'
            elif len(ins) == 1:
                for o_ in outp:
                    m.edges.add((o_, ins[0]))
                shape = 'N:1'
            else:
                for i_ in ins:
                    m.edges.add((outp[0], i_))
                shape = '1:N'
            world.ops.append(f'insert sub{sm.nodes} edges{sorted(sm.edges)} after {outp} ({shape})')
            world.count('op.insert.' + shape)
            compare(world, wb, m, 'insert_workflow')
            snaps.append((other, sm.copy(), 'inserted Workflow'))
        elif op == 'snapshot':
            if m.nodes:
                snaps.append((pw.Workflow(wb), m.copy(), f'Workflow frozen after {len(world.ops)} operations'))
                world.ops.append('snapshot = Workflow(builder)  (builder keeps being used)')
                world.count('op.snapshot')
        elif op == 'roundtrip':
            # every way of freezing a builder into a Workflow value
            rk = t.draw(4, 'roundtrip.kind')
            if rk == 0:
                wf = pw.Workflow(wb)
            elif rk == 1:
                wf = pw.Workflow.create(builder=wb)
            elif rk == 2:
                wf = pw.Workflow(wb).replace(name='wf')           # same graph, name given
            else:
                wf = pw.Workflow(pw.WorkflowBuilder(name='other')).replace(builder=wb)
            if wf.name != 'wf':
                raise Violation('workflow-name-lost', f'name is {wf.name!r} after freezing (kind {rk})')
            compare(world, wf, m, 'Workflow(builder)')
            wb = pw.WorkflowBuilder(wf)
            world.ops.append('roundtrip')
            world.count('op.roundtrip')
            compare(world, wb, m, 'WorkflowBuilder(workflow)')
        elif op == 'plus':
            sub, sm = small_workflow(world, max_tasks=min(3, 12 - len(m.nodes)))
            if t.draw(2, 'plus.kind'):
                wb = wb + pw.Workflow(sub)
            else:
                wf = pw.Workflow(wb) + pw.Workflow(sub)
                wb = pw.WorkflowBuilder(wf)
                wb.name = 'wf'
            m.compose(sm)
            world.ops.append(f'plus sub{sm.nodes} edges{sorted(sm.edges)}')
            world.count('op.plus')
            compare(world, wb, m, '__add__')
        elif op == 'refused':
            # multi-sink workflows must be refused by as_dask_dict
            if len(m.outputs()) > 1:
                try:
                    pw.Workflow(wb).as_dask_dict()
                except ValueError:
                    world.count('op.multisink.refused')
                else:
                    raise Violation('multi-sink-not-refused',
                                    f'{len(m.outputs())} output tasks accepted by as_dask_dict')
        elif op == 'readd':
            # add_task on a task that is already present: only new edges appear
            u = m.nodes[t.draw(len(m.nodes), 'readd.which')]
            anc = m.ancestors(u) | {u}
            desc = {v for v in m.nodes if u in m.ancestors(v)}
            avail = [p for p in m.nodes if p not in desc and p != u]
            if avail:
                p = avail[t.draw(len(avail), 'readd.pred')]
                wb.add_task(world.tasks[u], predecessors=[world.tasks[p]])
                m.add_task(u, [p])
                world.ops.append(f'readd #{u} <- [{p}]')
                world.count('op.readd')
                compare(world, wb, m, 'add_task(existing)')
            del anc
    # one sink, normally
    outs = m.outputs()
    if len(outs) > 1 and t.draw(12, 'leave.multisink') != 11:
        uid = world.new_task()
        perm = t.permutation(len(outs), 'join.perm')
        preds = [outs[i] for i in perm]
        wb.add_task(world.tasks[uid], predecessors=[world.tasks[p] for p in preds])
        m.add_task(uid, preds)
        world.ops.append(f'join {world.describe(uid)} <- {preds}')
        world.count('probe.join_task')
        if len(preds) >= 3:
            world.count('probe.join_3plus')
        compare(world, wb, m, 'add_task')
    for (snap, sm_, label) in snaps:
        compare(world, snap, sm_, 'earlier-frozen-workflow-changed')
    wf = pw.Workflow(wb)
    compare(world, wf, m, 'Workflow(builder)')
    if wf.name != 'wf' or wb.name != 'wf':
        raise Violation('workflow-name-lost', f'name is {wf.name!r} / {wb.name!r}, built as \'wf\'')
    world.uses_results_string = any('results' in world.spec[u]['static'] for u in m.nodes)
    return wf, m


def build_static_results(world):
    """Fixed regression scenario for known finding F8: a task whose static input is
    the string 'results' (the key as_dask_dict gives to the sink)."""
    pw = _P['pw']
    wb = pw.WorkflowBuilder(name='wf')
    m = Mirror()
    world.allow_results = False
    a = world.new_task()
    world.spec[a] = {'name': 'a', 'fi': 0, 'ctxful': False, 'static': (1,)}
    world.tasks[a] = pw.Task('a', get_fn(0, False), 1)
    b = world.new_task()
    world.spec[b] = {'name': 'b', 'fi': 1, 'ctxful': False, 'static': ('results',)}
    world.tasks[b] = pw.Task('b', get_fn(1, False), 'results')
    wb.add_task(world.tasks[a])
    m.add_task(a, [])
    wb.add_task(world.tasks[b], predecessors=world.tasks[a])
    m.add_task(b, [a])
    world.ops.append("add #0:a=f0(1) <- []")
    world.ops.append("add #1:b=f1('results') <- [0]")
    wf = pw.Workflow(wb)
    compare(world, wf, m, 'Workflow(builder)')
    world.uses_results_string = True
    return wf, m


def scenarios(tier):
    return [dict(mode='event', fault='none', branch='threaded', scenario='static-results')]


# --------------------------------------------------------------------------
# reference evaluation
# --------------------------------------------------------------------------
def dispatched_order(world, m):
    """Node order of the workflow execute_workflow hands to the dispatcher: every
    task re-enters in its original order, then context-taking tasks re-enter."""
    plain = [u for u in m.nodes if not world.spec[u]['ctxful']]
    ctx = [u for u in m.nodes if world.spec[u]['ctxful']]
    return plain + ctx


def reference_eval(world, m, fail_sigs=frozenset()):
    order = dispatched_order(world, m)
    pos = {u: i for i, u in enumerate(order)}
    value = {}
    calls = {}          # sig -> count
    failed = set()      # nodes that fail or have a failed ancestor
    raised = set()
    remaining = list(m.nodes)
    done = set()
    while remaining:
        progressed = False
        for u in list(remaining):
            ps = m.preds(u)
            if any(p not in done for p in ps):
                continue
            remaining.remove(u)
            done.add(u)
            progressed = True
            if any(p in failed for p in ps):
                failed.add(u)
                continue
            sp = world.spec[u]
            fname = fname_of(sp)
            argsigs = tuple(prefix_of(sp) + [enc(s) for s in sp['static']] +
                            [enc(value[p]) for p in sorted(ps, key=lambda p: pos[p])])
            sig = (fname, argsigs)
            calls[sig] = calls.get(sig, 0) + 1
            if sp.get('caller'):
                # dynamically called sub-workflow: evaluated with the same reference rules
                sub_m = world.subs[sp['sub']][1]
                sv, sc, sf, sr = reference_eval(world, sub_m, fail_sigs)
                for k_, n_ in sc.items():
                    calls[k_] = calls.get(k_, 0) + n_
                if sr or sf:
                    failed.add(u)
                    raised |= sr
                    continue
                value[u] = value_of(fname, argsigs + (enc(sv[sub_m.outputs()[0]]),))
                continue
            if sig in fail_sigs:
                failed.add(u)
                raised.add(sig)
                continue
            value[u] = value_of(fname, argsigs)
        if not progressed:
            raise RuntimeError('mirror has a cycle')
    return value, calls, failed, raised


# --------------------------------------------------------------------------
# distributed stub
# --------------------------------------------------------------------------
def make_distributed_stubs(env_ref, stats):
    dd = _P['dd']
    dask_local = _P['dask_local']

    class StubFuture:
        _n = [0]

        def __init__(self, value):
            self.value = value
            StubFuture._n[0] += 1
            self.key = f'scattered-{StubFuture._n[0]}'

    class StubCluster:
        def __init__(self, *a, **k):
            pass

        def __enter__(self):
            return self

        def __exit__(self, *a):
            return False

    class StubClient:
        def __init__(self, cluster=None, *a, **k):
            self.closed = False
            StubClient.active_keys = []

        def __enter__(self):
            return self

        def __exit__(self, *a):
            return False

        def __repr__(self):
            return '<StubClient>'

        def scatter(self, value, hash=True, **kw):
            stats['probe.scattered_values'] = stats.get('probe.scattered_values', 0) + 1
            return StubFuture(value)

        def close(self):
            self.closed = True

        def gather(self, futures, **kw):
            return futures.value if isinstance(futures, _Done) else futures

        def get(self, dsk, key, sync=True, **kw):
            res = self._get(dsk, key)
            if self.closed:
                # the client was closed while the graph ran: the real client cancels the
                # outstanding futures and client.get raises FutureCancelledError
                raise _P['dd'].client.FutureCancelledError(key, 'client closed')
            return res if sync else _Done(res)

        active_keys = []     # keys of graphs in flight in the (shared) scheduler

        def _get(self, dsk, key):
            mine = set(dsk)
            for other in StubClient.active_keys:
                clash = mine & other
                if clash:
                    # dask.distributed identifies tasks by key: a second graph that re-uses a
                    # key of a graph still in flight would be wired to the other computation
                    raise RuntimeError(f'key collision in the shared scheduler: {sorted(clash)[:3]}')
            StubClient.active_keys.append(mine)
            try:
                return self._compute(dsk, key)
            finally:
                StubClient.active_keys.remove(mine)

        def _compute(self, dsk, key):
            # futures are opaque data references: materialise them as data nodes
            extra = {}

            def walk(c):
                if isinstance(c, StubFuture):
                    extra[c.key] = c
                    return c.key
                if type(c) is tuple and c and callable(c[0]):
                    return (c[0],) + tuple(walk(x) for x in c[1:])
                if type(c) is list:
                    return [walk(x) for x in c]
                return c

            g = {k_: walk(v) for k_, v in dsk.items()}
            for k_, f in extra.items():
                g[k_] = (_Literal(f.value),)
            env = env_ref[0]
            return dask_local.get_async(env.pool.submit, env.pool._max_workers, g, key)

    class _Done:
        def __init__(self, value):
            self.value = value

    class _Literal:
        def __init__(self, v):
            self.v = v

        def __call__(self):
            return self.v

    return StubFuture, StubCluster, StubClient


# --------------------------------------------------------------------------
# one simulated run: one workflow, several executions
# --------------------------------------------------------------------------
_MISSING = object()


class _UuidStub:
    """Seeded uuid4.  Distinct by construction (a counter is part of the value), so that
    zeroed or exhausted tapes - as produced by shrinking - can never fabricate equal keys."""

    def __init__(self, tape):
        self.tape = tape
        self.n = 0

    def uuid4(self):
        self.n += 1
        r = self.tape.draw(1 << 30, 'uuid')
        return _uuid.UUID(int=(r << 96) | (4 << 76) | (self.n << 32) | (r ^ 0x5A5A5A))


def run_one(cfg, tape: Tape, want_trace=False):
    prepare()
    stats = {}
    world = World(tape, stats)
    world.allow_results = cfg['branch'] == 'threaded'
    world.allow_sub = cfg['branch'] == 'distributed'
    world.allow_abort = cfg['branch'] == 'distributed' and cfg.get('fault') == 'abort'
    violations = []
    res = {'violations': violations, 'harness_error': None, 'stats': stats, 'steps': 0,
           'switches': 0, 'sim_seconds': 0.0, 'outcome': 'ok', 'states': []}
    h = hashlib.sha256()

    def viol(cls, detail):
        sig = f'{PROP}/{cls}'
        if world.uses_results_string and not cls.startswith('builder-mismatch'):
            sig = f'{PROP}/static-input-named-results'
        if not any(v['signature'] == sig for v in violations):
            violations.append({'signature': sig, 'detail': detail})

    try:
        if cfg.get('scenario') == 'static-results':
            wf, m = build_static_results(world)
        else:
            wf, m = build(world)
    except Violation as v:
        viol(v.cls, v.detail)
        res.update(digest=hashlib.sha256(repr(world.ops).encode()).hexdigest(), nontrivial=True,
                   tape=list(tape.out), outcome='builder-violation')
        if want_trace:
            res['ops'] = world.ops
        return res
    h.update(repr(world.ops).encode())
    nexec = 1 + tape.draw(3, 'nexec')
    multi = len(m.outputs()) != 1
    results_seen = []
    orders = []
    for e in range(nexec):
        r = _execute(cfg, tape, world, wf, m, multi, viol, stats, h, want_trace)
        res['steps'] += r['steps']
        res['switches'] += r['switches']
        res['sim_seconds'] += r['sim_seconds']
        if r.get('harness_error'):
            res['harness_error'] = r['harness_error']
        if r.get('value') is not None:
            results_seen.append(r['value'])
        orders.append(r.get('order'))
        res['states'].append(r.get('order_digest', 0))
        if want_trace:
            res.setdefault('executions', []).append(r.get('trace'))
        if violations:
            break
    if len(set(results_seen)) > 1:
        viol('schedule-dependent-result', f'results differ between schedules: {results_seen}')
    res['digest'] = h.hexdigest()
    res['nontrivial'] = len(m.nodes) >= 3 and any(len(m.preds(u)) >= 2 for u in m.nodes)
    res['tape'] = list(tape.out)
    if want_trace:
        res['ops'] = world.ops
        res['ntasks'] = len(m.nodes)
    return res


def _execute(cfg, tape, world, wf, m, multi, viol, stats, h, want_trace):
    pw = _P['pw']
    dask = _P['dask']
    out = {'steps': 0, 'switches': 0, 'sim_seconds': 0.0}
    run = _Run()
    run.tape = tape
    disk = cfg.get('ctx') == 'disk'
    if disk:
        import shutil
        from pharmpy.workflows import LocalDirectoryContext
        droot = _disk_root()
        shutil.rmtree(droot, ignore_errors=True)
        os.makedirs(droot)
        os.chdir(droot)         # whatever falls back to the current directory stays in the scratch area
        import pharmpy.workflows.contexts.baseclass as _ctxbase
        run.saved_broadcast = (_ctxbase, _ctxbase.broadcast_message)
        _ctxbase.broadcast_message = lambda *a, **k: None      # terminal broadcast: stub
        run.disk = True
        run.default_ctx = tape.draw(3, 'ctx.default') == 2
        run.default_ctx_cwd = run.default_ctx and tape.draw(2, 'ctx.cwd') == 1
        if run.default_ctx:
            # execute_workflow(context=None, path=...) creates LocalDirectoryContext(<workflow
            # name>, ref=path) itself
            ctx = None
            stats['exec.default_context'] = stats.get('exec.default_context', 0) + 1
        else:
            ctx = LocalDirectoryContext('wfctx', ref=droot)
        stats['exec.disk_context'] = stats.get('exec.disk_context', 0) + 1
    else:
        ctx = _P['NullContext']('ctx')
    run.ctx_obj = ctx
    # faults
    fail_sigs = frozenset()
    if cfg['fault'] == 'task' and not multi:
        _, calls0, _, _ = reference_eval(world, m)
        sigs = sorted(x for x in calls0 if not x[0].startswith('h'))
        k = 1 + tape.draw(2, 'fault.ntasks')
        chosen = set()
        for _ in range(k):
            chosen.add(sigs[tape.draw(len(sigs), 'fault.task')])
        fail_sigs = frozenset(chosen)
        stats['fault.task_failure'] = stats.get('fault.task_failure', 0) + len(fail_sigs)
    run.fail_sigs = fail_sigs
    _CUR[0] = run
    if disk and not multi and not fail_sigs and tape.draw(2, 'wrap.results'):
        value0, _c0, _f0, _r0 = reference_eval(world, m)
        run.wrap_value = value0[m.outputs()[0]]
    nworkers = 1 + tape.draw(4, 'nworkers')
    chunks = tape.weighted([(8, 1), (2, 2), (1, 3)], 'chunksize')  # -1 trips a dask bug (0 ready)
    env_ref = [None]
    kernel = None
    if cfg['mode'] == 'thread':
        policy = ('random', 'sticky', 'pct', 'rr')[tape.draw(4, 'policy')]
        kernel = Kernel(tape, policy=policy, max_steps=4000, pct_depth=1 + tape.draw(3, 'pct.depth'),
                        log_events=want_trace)
        env = ThreadEnv(kernel, tape, nworkers, stats)
        run.kernel = kernel
    else:
        env = EventEnv(tape, nworkers, stats)
    env_ref[0] = env

    wfmod = _P['wfmod']
    disp = _P['disp']
    dask_local = _P['dask_local']
    saved = (getattr(wfmod, 'uuid', _MISSING), disp.conf.dask_dispatcher, dask_local.Queue)
    dd = _P['dd']
    saved_dd = None
    wfmod.uuid = _UuidStub(tape)
    disp.conf.dask_dispatcher = 'threaded' if cfg['branch'] == 'threaded' else 'distributed'
    dask_local.Queue = env.make_queue
    if cfg['branch'] == 'distributed':
        SF, SC, SCl = make_distributed_stubs(env_ref, stats)
        saved_dd = (dd.Client, dd.LocalCluster, dd.Future, dd.get_client, dd.secede, dd.rejoin)
        the_client = []

        class _Client(SCl):
            def __init__(self, *a, **k):
                super().__init__(*a, **k)
                the_client.append(self)

        dd.Client, dd.LocalCluster, dd.Future = _Client, SC, SF
        dd.get_client = lambda *a, **k: the_client[-1]
        dd.secede = lambda *a, **k: None
        dd.rejoin = lambda *a, **k: None
    outcome = {}

    def dispatch():
        try:
            with dask.config.set(pool=env.pool, chunksize=chunks):
                if run.disk and getattr(run, 'default_ctx', False):
                    if run.default_ctx_cwd:
                        os.chdir(_disk_root())      # (dask's run() changes and restores the cwd)
                        outcome['value'] = pw.execute_workflow(wf)           # context below the cwd
                    else:
                        outcome['value'] = pw.execute_workflow(wf, path=_disk_root())
                else:
                    outcome['value'] = pw.execute_workflow(wf, context=ctx)
        except Exception as e:
            outcome['exc'] = e

    try:
        if kernel is not None:
            kernel.spawn(dispatch, 'dispatcher')
            oc = kernel.run()
            out['steps'] = kernel.steps
            out['switches'] = kernel.switches
            if oc == 'cap':
                out['harness_error'] = 'step cap hit'
            elif oc == 'quiescent':
                viol('dispatcher-stuck', 'all vthreads parked: ' +
                     ', '.join(f'{t.name}:{t.blocked_kind}' for t in kernel.threads
                               if t.state == 'blocked'))
            for t in kernel.threads:
                if t.exc is not None:
                    out['harness_error'] = f'uncaught exception in {t.name}: {t.exc!r}'
            h.update(kernel.digest().encode())
        else:
            dispatch()
            out['steps'] = len(env.completion_order)
            out['sim_seconds'] = float(env.now)
            h.update(repr(env.completion_order).encode())
    finally:
        if kernel is not None:
            kernel.shutdown()
        _uuid_saved, disp.conf.dask_dispatcher, dask_local.Queue = saved
        if _uuid_saved is _MISSING:      # the module under test does not import uuid (any more)
            if hasattr(wfmod, 'uuid'):
                del wfmod.uuid
        else:
            wfmod.uuid = _uuid_saved
        if saved_dd is not None:
            (dd.Client, dd.LocalCluster, dd.Future, dd.get_client, dd.secede, dd.rejoin) = saved_dd
        _CUR[0] = None
        if getattr(run, 'saved_broadcast', None):
            run.saved_broadcast[0].broadcast_message = run.saved_broadcast[1]
    ctx_name = 'wfctx'
    if disk and getattr(run, 'default_ctx', False):
        # reopen the context execute_workflow created (named after the workflow)
        ctx_name = 'wf'
        if not multi:
            try:
                ctx = _P['LocalDirectoryContext']('wf', ref=_disk_root())
                ctx.broadcast_message = lambda *a, **k: None
            except Exception as ex:
                viol('default-context', f'the default context cannot be reopened: {ex!r}')
                return out
            if run.ctx_obj is not None and str(run.ctx_obj.path) != str(ctx.path):
                viol('default-context', f'tasks received a context at {run.ctx_obj.path}, expected {ctx.path}')
                return out

    # ---------------- oracle over the recorded history
    _CUR[0] = run   # enc() needs the context identity
    try:
        value, calls_exp, failed, raised = reference_eval(world, m, fail_sigs)
    finally:
        _CUR[0] = None
    starts = [c for c in run.calls if c[1] == 'start']
    order_sig = tuple((c[2], c[3]) for c in starts)
    out['order'] = order_sig
    out['order_digest'] = int(hashlib.sha1(repr(order_sig).encode()).hexdigest()[:15], 16)
    h.update(repr(run.calls).encode())
    if want_trace:
        out['trace'] = {'nworkers': nworkers, 'chunksize': chunks,
                        'calls': [f'{c[0]}:{c[1]}:{c[2]}{list(c[3])}' for c in run.calls],
                        'outcome': {k_: repr(v_)[:200] for k_, v_ in outcome.items()}}
    exc = outcome.get('exc')
    if isinstance(exc, DispatcherStuck):
        viol('dispatcher-stuck', 'dask waits for a completion but nothing is pending')
        return out
    got = {}
    for c in starts:
        got[(c[2], c[3])] = got.get((c[2], c[3]), 0) + 1
    if multi:
        if not isinstance(exc, ValueError):
            viol('multi-sink-not-refused', f'workflow with {len(m.outputs())} sinks: {outcome}')
        elif starts:
            viol('multi-sink-not-refused', 'tasks ran although the workflow was refused')
        stats['exec.multisink_refused'] = stats.get('exec.multisink_refused', 0) + 1
        return out
    # every task at most once, always
    for sig, n in got.items():
        if n > calls_exp.get(sig, 0):
            if sig in calls_exp:
                viol('task-ran-twice', f'{sig[0]}{list(sig[1])} called {n} times, declared '
                                       f'{calls_exp[sig]}')
            else:
                # same function and multiset of args but another order?
                alt = [s for s in calls_exp if s[0] == sig[0] and sorted(s[1]) == sorted(sig[1])]
                if alt:
                    viol('argument-order', f'{sig[0]} called with {list(sig[1])}, declared order '
                                           f'{list(alt[0][1])}')
                else:
                    viol('wrong-arguments', f'{sig[0]} called with {list(sig[1])}; declared calls of '
                                            f'{sig[0]}: {[list(s[1]) for s in calls_exp if s[0] == sig[0]]}')
            return out
    # a task starts only after its predecessors' results exist
    ended = {}
    for c in run.calls:
        if c[1] == 'end':
            ended.setdefault(c[4], c[0])
        elif c[1] == 'start':
            for a in c[3]:
                if a.startswith("'v:"):
                    v = a.strip("'")
                    if v not in ended or ended[v] > c[0]:
                        viol('started-before-predecessor', f'{c[2]} started with {v} before it existed')
    if disk and ctx is not None:
        prob = _check_context_log(ctx, run, cfg, exc, ctx_name)
        if prob:
            viol('context-log', prob)
            return out
    aborted = getattr(run, 'aborted', False)
    if aborted:
        # context.abort_workflow closed the client: run() returns None, nothing runs twice
        stats['exec.aborted'] = stats.get('exec.aborted', 0) + 1
        if exc is not None:
            viol(f'raised/{type(exc).__name__}', f'aborted workflow: execute_workflow raised {exc!r}')
        elif outcome.get('value') is not None:
            viol('abort-ignored', f'the workflow was aborted but execute_workflow returned '
                                  f'{outcome.get("value")!r}')
        return out
    if not fail_sigs or not raised:
        if exc is not None:
            viol(f'raised/{type(exc).__name__}', f'execute_workflow raised {exc!r}')
            return out
        sink = m.outputs()[0]
        if run.wrap_value is not None:
            prob = _check_stored_results(ctx, outcome.get('value'), value[sink])
            if prob:
                viol('results-object', prob)
                return out
            outcome['value'] = value[sink]
            stats['exec.results_object_stored'] = stats.get('exec.results_object_stored', 0) + 1
        if outcome.get('value') != value[sink]:
            viol('wrong-result', f'execute_workflow returned {outcome.get("value")!r}, sequential '
                                 f'reference gives {value[sink]!r}')
            return out
        if got != calls_exp:
            missing = [s for s in calls_exp if got.get(s, 0) < calls_exp[s]]
            viol('task-not-run', f'declared calls missing: {[(s[0], list(s[1])) for s in missing][:3]}')
            return out
        out['value'] = outcome.get('value')
        stats['exec.ok'] = stats.get('exec.ok', 0) + 1
        if len(starts) >= 3 and any(len(m.preds(u)) >= 3 for u in m.nodes):
            stats['probe.exec_with_join_3plus'] = stats.get('probe.exec_with_join_3plus', 0) + 1
    else:
        stats['exec.with_failure'] = stats.get('exec.with_failure', 0) + 1
        if not isinstance(exc, InjectedTaskFailure):
            viol('failure-not-propagated',
                 f'a task raised but execute_workflow gave {outcome!r}')
            return out
        if exc.sig not in raised:
            viol('failure-not-propagated', f'raised {exc.sig}, injected {sorted(raised)}')
        # nothing downstream of a failed task may have run
        _CUR[0] = run
        try:
            for u in failed:
                sp = world.spec[u]
            # a call is illegal if its signature is not among the calls of non-failed nodes
            value2, calls_ok, failed2, _ = reference_eval(world, m, fail_sigs)
        finally:
            _CUR[0] = None
        for sig in got:
            if sig not in calls_ok:
                viol('ran-after-failed-predecessor', f'{sig[0]}{list(sig[1])} ran')
    return out


def _disk_root():
    return f'/dev/shm/verif-c17-{os.getpid():07d}'


def cleanup():
    import glob
    import shutil
    for d in glob.glob('/dev/shm/verif-c17-*'):
        try:
            pid = int(d.rsplit('-', 1)[1])
        except ValueError:
            continue
        if pid == os.getpid() or not os.path.exists(f'/proc/{pid}'):
            shutil.rmtree(d, ignore_errors=True)


def _check_stored_results(ctx, got, want_value):
    """execute_workflow returns the Results object of the sink and has stored it in the
    context (results.json + results.csv), readable back and equal."""
    from pharmpy.workflows.results import Results
    if not isinstance(got, Results):
        return f'the sink returned a Results object but execute_workflow returned {got!r}'
    if list(got.ofv.index)[0] != want_value:
        return f'Results object of another task: {list(got.ofv.index)[0]} instead of {want_value}'
    try:
        back = ctx.retrieve_results()
    except Exception as ex:
        return f'execute_workflow did not store the results in the context: {ex!r}'
    if back.to_json() != got.to_json():
        return 'the results stored in the context differ from the returned ones'
    if not os.path.isfile(os.path.join(str(ctx.path), 'results.csv')):
        return 'results.csv was not written'
    return None


def _check_context_log(ctx, run, cfg, exc, ctx_name='wfctx'):
    """Every log call made by a task is in the context's log exactly once, verbatim, with its
    severity and context path, in an order consistent with the calls' real-time order; the
    distributed dispatcher frames them with its own two messages."""
    try:
        df = ctx.retrieve_log()
    except Exception as ex:
        return f'retrieve_log raises {ex!r}'
    rows = list(zip(df['path'].tolist(), df['severity'].tolist(), df['message'].tolist()))
    task_rows = [r for r in rows if r[2].startswith('task|')]
    want = [(m_[2], m_[3]) for m_ in run.logged]
    if sorted((r[2], r[1]) for r in task_rows) != sorted(want):
        return f'log rows {[(r[2], r[1]) for r in task_rows][:4]} differ from the messages the tasks logged {want[:4]}'
    if any(r[0] != ctx_name for r in rows):
        return f'context path of a row is not that of the context: {[r[0] for r in rows][:3]}'
    pos = {}
    for i, r in enumerate(task_rows):
        pos.setdefault(r[2], []).append(i)
    for a in run.logged:
        for b in run.logged:
            if a[1] <= b[0] and a[2] != b[2] and max(pos[a[2]]) > min(pos[b[2]]) and \
                    len(pos[a[2]]) == 1 and len(pos[b[2]]) == 1:
                return f'{a[2][:50]!r} was logged before {b[2][:50]!r} but comes after it'
    if cfg['branch'] == 'distributed' and not getattr(run, 'aborted', False):
        others = [r[2] for r in rows if not r[2].startswith('task|')]
        if not others or not others[0].startswith('Dispatching workflow') or \
                (exc is None and others[-1] != 'End dispatch'):
            return f'dispatcher messages missing or misplaced: {others[:3]}'
        if rows[0][2] != others[0] or (exc is None and rows[-1][2] != 'End dispatch'):
            return 'dispatcher messages do not frame the task messages'
        if exc is None and len(others) != 2:
            return f'the dispatcher logged {others} (expected one start and one end message)'
    return None


def decode(cfg, tape_values):
    r = run_one(cfg, Tape(recorded=tape_values), want_trace=True)
    return {'ops': r.get('ops'), 'executions': r.get('executions'), 'violations': r['violations']}


def sample_of(cfg, r):
    rr = run_one(cfg, Tape(recorded=r['tape']), want_trace=True)
    ex = rr.get('executions') or [None]
    return {'config': cfg, 'builder_ops': rr.get('ops'), 'first_execution': ex[0]}


LEVEL = 'exploration'
RULE = ('each evaluation builds one workflow with a tape-drawn sequence of <=18 builder operations '
        '(add_task with 0-4 predecessors, replace_task, insert_workflow 1:1/N:N/1:N/N:1 and the refused '
        'N:M, +, Workflow<->WorkflowBuilder round trips, re-adding an existing task) on <=12 tasks, '
        'compares tasks/edges with the mirror after every operation, and executes it 1-3 times through '
        'execute_workflow + local_dask.run under different seeded completion orders, worker counts '
        '(1-4), chunk sizes and uuid draws; distinct = distinct SHA-256 over builder ops + completion '
        'order + call log; non-trivial = >=3 tasks and at least one task with >=2 predecessors')
ASSUMPTIONS = [
    'argument order = node order of the workflow handed to the dispatcher (every task re-enters in '
    'its original order, context-taking tasks re-enter last); this is the reading the pinned tree '
    'implements and DESIGN.md 5.3 fixes',
    'dask.local.get_async / order / fuse are the real dask code; the worker pool, the completion '
    'queue and (distributed branch) Client/LocalCluster/Future are in-process stubs',
    'task functions come from a pure family whose value is a digest of (function, arguments)',
]
COMPONENTS = {
    'real': ['pharmpy.workflows.task/workflow/execute', 'dispatchers.local_dask.run (both branches)',
             'dispatchers.local_dask.optimize', 'dask.local.get_async, dask.order, dask.optimization.fuse',
             'networkx DiGraph'],
    'stub': ['worker pool + completion queue (sim/simpool.py)', 'uuid4 (seeded)',
             'dask.distributed Client/LocalCluster/Future (in-process stubs, distributed branch only)',
             'context = NullContext'],
}


def budget(tier):
    if tier == 'thorough':
        return {'runs': 400_000, 'chunk': 1000, 'run_timeout': 20, 'selftest_every': 200, 'xproc_runs': 500,
                'chunk_timeout': 1500, 'wall_limit': 3 * 3600, 'shrink_evals': 2500,
                'shrink_seconds': 240, 'xproc_timeout': 900}
    return {'runs': 6000, 'chunk': 100, 'run_timeout': 20, 'selftest_every': 40, 'xproc_runs': 150,
            'chunk_timeout': 600, 'wall_limit': 1500, 'shrink_evals': 1200, 'shrink_seconds': 60}
