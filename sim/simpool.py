"""Seeded replacements for the dask worker pool and result queue.

``dask.threaded.get`` takes its executor from ``dask.config`` (key ``pool``) and
``dask.local.get_async`` builds its completion queue from the module global
``dask.local.Queue``; both are honoured by pharmpy's real ``run()``.  The real
dask scheduler (ready/waiting/running bookkeeping, ``order``, ``fire_tasks``)
runs unchanged on top of these.

* event mode: ``submit`` only enqueues; whenever dask's main loop blocks in
  ``queue.get()`` the simulator pops the pending job with the smallest virtual
  finish time (tie-break from the tape), runs it to completion and delivers it.
  No threads at all; thousands of executions per second.
* thread mode: each submitted batch runs in its own vthread of sim.kernel, the
  dispatcher loop itself is a vthread and parks in ``queue.get()``.
"""

from __future__ import annotations

from .kernel import HarnessError, SimAbort


class DispatcherStuck(Exception):
    """dask waits for a completion but no job is pending or running."""


class SimFuture:
    def __init__(self):
        self._done = False
        self._result = None
        self._exc = None
        self._cbs = []

    def add_done_callback(self, fn):
        if self._done:
            fn(self)
        else:
            self._cbs.append(fn)

    def set_result(self, value):
        self._result = value
        self._done = True
        cbs, self._cbs = self._cbs, []
        for cb in cbs:
            cb(self)

    def set_exception(self, exc):
        self._exc = exc
        self._done = True
        cbs, self._cbs = self._cbs, []
        for cb in cbs:
            cb(self)

    def done(self):
        return self._done

    def result(self, timeout=None):
        if not self._done:
            raise HarnessError('result() of an unfinished SimFuture')
        if self._exc is not None:
            raise self._exc
        return self._result


class EventEnv:
    """Discrete-event execution: virtual clock, no threads."""

    def __init__(self, tape, num_workers, stats):
        self.tape = tape
        self.now = 0
        self.seq = 0
        self.pending = []      # [finish, seq, fut, fn, args, kwargs]
        self.stats = stats
        self.pool = self._Pool(self, num_workers)
        self.completion_order = []
        self.max_pending = 0

    class _Pool:
        def __init__(self, env, n):
            self.env = env
            self._max_workers = n

        def submit(self, fn, *args, **kwargs):
            env = self.env
            fut = SimFuture()
            dur = 1 + env.tape.draw(6, 'job.duration')
            if env.tape.chance(1, 10, 'job.stall'):
                dur += 50       # slow / stalled worker
                env.stats['fault.stalled_worker'] = env.stats.get('fault.stalled_worker', 0) + 1
            env.seq += 1
            env.pending.append([env.now + dur, env.seq, fut, fn, args, kwargs])
            env.max_pending = max(env.max_pending, len(env.pending))
            return fut

        def shutdown(self, *a, **k):
            pass

    def run_one(self):
        if not self.pending:
            raise DispatcherStuck()
        first = min(p[0] for p in self.pending)
        cands = [p for p in self.pending if p[0] == first]
        job = cands[self.tape.draw(len(cands), 'job.tie')]
        self.pending.remove(job)
        self.now = job[0]
        _, seq, fut, fn, args, kwargs = job
        self.completion_order.append(seq)
        try:
            res = fn(*args, **kwargs)
        except Exception as e:   # batch_execute_tasks packs task errors itself
            fut.set_exception(e)
        else:
            fut.set_result(res)

    def make_queue(self):
        env = self

        class _Queue:
            def __init__(self):
                self.items = []

            def put(self, item):
                self.items.append(item)

            def get(self, block=True, timeout=None):
                while not self.items:
                    env.run_one()
                return self.items.pop(0)

        return _Queue()


class ThreadEnv:
    """Every submitted batch is a vthread; the dispatcher parks in queue.get()."""

    def __init__(self, kernel, tape, num_workers, stats):
        self.k = kernel
        self.tape = tape
        self.stats = stats
        self.nworkers_spawned = 0
        self.pool = self._Pool(self, num_workers)
        self.now = 0

    class _Pool:
        def __init__(self, env, n):
            self.env = env
            self._max_workers = n

        def submit(self, fn, *args, **kwargs):
            env = self.env
            k = env.k
            fut = SimFuture()
            env.nworkers_spawned += 1
            me = k.me()

            def job():
                vt = k.me()
                k.yield_point('job.start')
                try:
                    res = fn(*args, **kwargs)
                except SimAbort:
                    raise
                except Exception as e:
                    if vt.killed:
                        raise SimAbort()
                    fut.set_exception(e)
                else:
                    if vt.killed:
                        raise SimAbort()
                    k.yield_point('job.done')
                    fut.set_result(res)

            k.yield_point('submit')
            k.spawn(job, f'w{env.nworkers_spawned}', pid=me.pid if me is not None else 1)
            return fut

        def shutdown(self, *a, **k):
            pass

    def make_queue(self):
        k = self.k

        class _Queue:
            def __init__(self):
                self.items = []
                self.name = 'dask-queue'

            def put(self, item):
                if k.inert():
                    k.abort_if_killed()
                    return
                k.yield_point('queue.put')
                self.items.append(item)

            def get(self, block=True, timeout=None):
                if k.inert():
                    k.abort_if_killed()
                k.yield_point('queue.get')
                while not self.items:
                    if not any(t.state != 'done' and t is not k.me() for t in k.threads):
                        raise DispatcherStuck()
                    k.park('queue', self, lambda: bool(self.items))
                return self.items.pop(0)

        return _Queue()
