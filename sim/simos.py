"""Simulated kernel side of ``os.open/close`` (for lock files) and ``fcntl.lockf``.

POSIX record locks as Linux implements them:

* a lock is owned by (process, inode); threads of one process share it;
* a second ``lockf`` by the same process converts the lock: an upgrade waits for
  conflicting locks of *other* processes while the old lock stays in place, a
  downgrade is atomic and lets waiters in;
* ``LOCK_NB`` -> ``BlockingIOError(EAGAIN, 'Resource temporarily unavailable')``;
* ``LOCK_SH`` needs a descriptor open for reading, ``LOCK_EX`` one open for writing
  (``EBADF`` otherwise);
* **closing any descriptor of an inode drops every lock the process holds on it**;
* process exit drops everything;
* ``EDEADLK`` when the owner-level wait-for graph would get a cycle (Linux's
  ``posix_locks_deadlock``; per-run switch).

Descriptors are virtual numbers (lowest free >= first_fd per process - 3, or 0 for a process
that runs with its standard descriptors closed -, so numbers get
reused as in a real process).
"""

from __future__ import annotations

import errno
import os as _os
import types

LOCK_SH, LOCK_EX, LOCK_NB, LOCK_UN = 1, 2, 4, 8


class HarnessCreateMissing(Exception):
    """os.open(O_CREAT) of a missing file but the simulation has no way to create files."""


class _OpenFile:
    __slots__ = ('inode', 'flags', 'path')

    def __init__(self, inode, flags, path):
        self.inode = inode
        self.flags = flags
        self.path = path


class SimOS:
    def __init__(self, kernel, exists=None, edeadlk=True, faults=None, stats=None, create=None, first_fd=3):
        self.k = kernel
        self.first_fd = first_fd      # lowest descriptor a process may get (0: stdin/out/err closed, a daemon)
        self.exists = exists if exists is not None else _os.path.exists
        self.create = create
        self.edeadlk = edeadlk
        self.faults = faults
        self.stats = stats if stats is not None else {}
        self.fds: dict[int, dict[int, _OpenFile]] = {}
        self.locks: dict[str, dict[int, str]] = {}      # inode -> {pid: 'S'|'X'}
        self.lock_waits: dict[int, list] = {}           # pid -> [set of pids it waits for, ...]
        self.produced_errors: list = []                 # OSErrors this kernel raised
        self.dead: set = set()

    # ---- helpers
    def _count(self, key):
        self.stats[key] = self.stats.get(key, 0) + 1

    def inode_of(self, path):
        # one file, however it is spelled (relative to the current directory or absolute)
        return _os.path.normpath(_os.path.join(_os.getcwd(), path))

    def _fault(self, site, pid, **kw):
        if self.faults is None:
            return
        err = self.faults.syscall(self.k, site, pid, **kw)
        if err is not None:
            self.produced_errors.append((site, pid, err.errno))
            self._count(f'fault.{site}.{errno.errorcode.get(err.errno, err.errno)}')
            self.k.log('fault', site, pid, err.errno)
            raise err

    def holders(self, inode):
        return self.locks.get(inode, {})

    def _conflicts(self, inode, pid, mode):
        out = []
        for p, m in self.locks.get(inode, {}).items():
            if p == pid:
                continue
            if mode == 'X' or m == 'X':
                out.append(p)
        return out

    # ---- syscalls
    def open(self, pid, path, flags, mode=0o777):
        if self.k.inert():
            self.k.abort_if_killed()
            return -1
        self.k.yield_point('open', _os.path.basename(path))
        self._fault('open', pid, path=path)
        if not self.exists(path):
            if not (flags & _os.O_CREAT):
                raise FileNotFoundError(errno.ENOENT, 'No such file or directory', path)
            if self.create is None:
                raise HarnessCreateMissing(path)
            self.create(path)
            self.k.log('creat', pid, _os.path.basename(path))
        elif (flags & _os.O_CREAT) and (flags & _os.O_EXCL):
            # O_CREAT|O_EXCL on a file that exists (somebody created it a moment ago)
            raise FileExistsError(errno.EEXIST, 'File exists', path)
        table = self.fds.setdefault(pid, {})
        fd = self.first_fd
        while fd in table:
            fd += 1
        table[fd] = _OpenFile(self.inode_of(path), flags, path)
        self.k.log('open', pid, fd, _os.path.basename(path))
        return fd

    def close(self, pid, fd):
        if self.k.inert():
            return
        self.k.yield_point('close', fd)
        table = self.fds.get(pid, {})
        f = table.pop(fd, None)
        if f is None:
            raise OSError(errno.EBADF, 'Bad file descriptor')
        # POSIX: closing *any* descriptor of the file drops the process's locks on it
        held = self.locks.get(f.inode)
        if held is not None and pid in held:
            del held[pid]
            self._count('kernel.lock_dropped_by_close')
            if not held:
                del self.locks[f.inode]
        self.k.log('close', pid, fd)
        # close(2) may report a deferred I/O error; the descriptor is closed nevertheless
        self._fault('close', pid, fd=fd)

    def lockf(self, pid, fd, op):
        if self.k.inert():
            if not (op & LOCK_UN):
                self.k.abort_if_killed()
            return
        self.k.yield_point('lockf', (fd, op))
        f = self.fds.get(pid, {}).get(fd)
        if f is None:
            raise OSError(errno.EBADF, 'Bad file descriptor')
        inode = f.inode
        if op & LOCK_UN:
            held = self.locks.get(inode)
            if held is not None and pid in held:
                del held[pid]
                if not held:
                    del self.locks[inode]
            self.k.log('lockf.un', pid, fd)
            return
        acc = f.flags & 3
        if op & LOCK_SH:
            mode = 'S'
            if acc == _os.O_WRONLY:
                raise OSError(errno.EBADF, 'Bad file descriptor')
        elif op & LOCK_EX:
            mode = 'X'
            if acc == _os.O_RDONLY:
                raise OSError(errno.EBADF, 'Bad file descriptor')
        else:
            raise OSError(errno.EINVAL, 'Invalid argument')
        self._fault('lockf', pid, fd=fd, op=op)
        while True:
            blockers = self._conflicts(inode, pid, mode)
            if not blockers:
                break
            if op & LOCK_NB:
                self.k.log('lockf.eagain', pid, fd, mode)
                raise BlockingIOError(errno.EAGAIN, 'Resource temporarily unavailable')
            if self.edeadlk and self._would_deadlock(pid, blockers):
                self._count('kernel.edeadlk')
                self.produced_errors.append(('lockf', pid, errno.EDEADLK))
                self.k.log('lockf.edeadlk', pid, fd, mode)
                raise OSError(errno.EDEADLK, 'Resource deadlock avoided')
            if self.faults is not None and getattr(self.faults, 'interrupt', None) is not None and \
                    self.faults.interrupt(self.k):
                self._count('fault.interrupt')
                self.k.log('fault', 'interrupt')
                raise KeyboardInterrupt()
            waits = self.lock_waits.setdefault(pid, [])
            entry = (inode, mode)
            waits.append(entry)
            try:
                self.k.park('lockf', (inode, mode, pid),
                            lambda: not self._conflicts(inode, pid, mode))
            finally:
                waits.remove(entry)
        prev = self.locks.setdefault(inode, {}).get(pid)
        self.locks[inode][pid] = mode
        if prev == 'S' and mode == 'X':
            self._count('kernel.upgrade')
        elif prev == 'X' and mode == 'S':
            self._count('kernel.downgrade')
        self.k.log('lockf.ok', pid, fd, mode)

    def _would_deadlock(self, pid, blockers):
        # Linux: follow "owner is blocked on a lock held by ..." edges (max 10 hops).  A
        # waiter's edge is evaluated against the locks that conflict with it NOW: Linux
        # detaches a waiter as soon as its blocker unlocks, a stale edge must not count.
        seen = set()
        frontier = list(blockers)
        hops = 0
        while frontier and hops < 10:
            hops += 1
            nxt = []
            for p in frontier:
                if p == pid:
                    return True
                if p in seen:
                    continue
                seen.add(p)
                for (inode, mode) in self.lock_waits.get(p, ()):
                    nxt.extend(self._conflicts(inode, p, mode))
            frontier = nxt
        return pid in frontier

    def foreign_close(self, pid, path):
        """The process closed a descriptor of `path` that it did not get from lock.py (e.g.
        a user opened the lock file itself): POSIX drops every record lock the process holds
        on that file."""
        inode = self.inode_of(path)
        held = self.locks.get(inode)
        if held is not None and pid in held:
            del held[pid]
            self._count('kernel.lock_dropped_by_foreign_close')
            self.k.log('foreign-close', pid, _os.path.basename(path))
            if not held:
                del self.locks[inode]

    def exit_process(self, pid):
        """Process death: drop all record locks and descriptors."""
        self.dead.add(pid)
        for inode in list(self.locks):
            held = self.locks[inode]
            if pid in held:
                del held[pid]
                if not held:
                    del self.locks[inode]
        self.fds.pop(pid, None)
        self.lock_waits.pop(pid, None)

    # ---- module-like views bound to one virtual process
    def make_os(self, pid):
        sim = self

        class _OSProxy(types.ModuleType):
            def __getattr__(self, name):
                return getattr(_os, name)

        mod = _OSProxy('os')
        mod.name = 'posix'
        mod.path = _os.path
        mod.open = lambda path, flags, mode=0o777, *, dir_fd=None: sim.open(pid, _os.fspath(path), flags, mode)
        mod.close = lambda fd: sim.close(pid, fd)
        mod.getpid = lambda: pid
        return mod

    def make_fcntl(self, pid):
        sim = self
        mod = types.ModuleType('fcntl')
        mod.LOCK_SH, mod.LOCK_EX, mod.LOCK_NB, mod.LOCK_UN = LOCK_SH, LOCK_EX, LOCK_NB, LOCK_UN
        mod.lockf = lambda fd, op, len=0, start=0, whence=0: sim.lockf(pid, fd, op)
        return mod
