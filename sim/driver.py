"""Batch driver shared by all checks: fan seeds out over forked workers, aggregate
evidence, minimise and replay-confirm violations, print the verdict lines.

Exit codes: 0 property held on everything explored (KNOWN-FINDING lines allowed);
1 a new, replay-confirmed violation (``VIOLATION property=<id> replay=<path>``);
2 harness error (determinism divergence, dead worker, step cap, time-out).
"""

from __future__ import annotations

import argparse
import collections
import faulthandler
import hashlib
import json
import multiprocessing as mp
import signal
import os
import subprocess
import sys
import time
import traceback

from . import minimise
from .tape import Tape

VERIF = os.path.dirname(os.path.dirname(os.path.abspath(__file__)))
ENGINE_VERSION = 1


def seed_of(base, i):
    return base * 1_000_003 + i


# ---------------------------------------------------------------- worker side
_CHECK = None
_TIMED_OUT = [False]


class RunTimeout(BaseException):
    pass


def _on_alarm(signum, frame):
    _TIMED_OUT[0] = True
    raise RunTimeout()


def guarded_run(chk, cfg, tape, limit, **kw):
    """run_one under a wall-clock alarm.  Real code that loops forever (a hang is a
    liveness violation, not a harness problem) is reported as '<PROP>/hang'; the
    process is poisoned afterwards (a runaway thread may still be spinning)."""
    _TIMED_OUT[0] = False
    signal.signal(signal.SIGALRM, _on_alarm)
    signal.setitimer(signal.ITIMER_REAL, limit)
    try:
        r = chk.run_one(cfg, tape, **kw)
        signal.setitimer(signal.ITIMER_REAL, 0)
        if _TIMED_OUT[0]:
            raise RunTimeout()
        return r, False
    except BaseException:
        signal.setitimer(signal.ITIMER_REAL, 0)
        if not _TIMED_OUT[0]:
            raise
        return {
            'violations': [{'signature': f'{chk.PROP}/hang',
                            'detail': f'no progress for {limit}s of wall-clock time: the code under '
                                      f'test loops or blocks outside the simulator'}],
            'harness_error': None, 'digest': hashlib.sha256(repr(tape.out).encode()).hexdigest(),
            'steps': 0, 'switches': 0, 'stats': {}, 'outcome': 'hang', 'nontrivial': True,
            'tape': list(tape.out)}, True


def _worker_chunk(args):
    (base, start, count, tier, selftest_every, chunk_timeout) = args
    chk = _CHECK
    run_limit = chk.budget(tier).get('run_timeout', 30)
    faulthandler.dump_traceback_later(chunk_timeout, exit=True)
    try:
        agg = {
            'runs': 0, 'steps': 0, 'switches': 0, 'stats': collections.Counter(),
            'outcomes': collections.Counter(), 'digests': set(), 'nontrivial': set(),
            'violations': {}, 'harness': [], 'classes': collections.Counter(),
            'determinism_checked': 0, 'samples': [], 'sim_seconds': 0.0, 'states': set(),
            'next_index': start + count,
        }
        poisoned = False
        for i in range(start, start + count):
            if poisoned:
                agg['next_index'] = i
                break
            cfg = chk.config_for(i, tier)
            seed = seed_of(base, i)
            try:
                r, poisoned = guarded_run(chk, cfg, Tape(seed=seed), run_limit)
            except Exception:
                agg['harness'].append({'index': i, 'cfg': cfg,
                                       'error': traceback.format_exc()[-1500:]})
                continue
            agg['runs'] += 1
            agg['steps'] += r.get('steps', 0)
            agg['switches'] += r.get('switches', 0)
            agg['sim_seconds'] += r.get('sim_seconds', 0.0)
            agg['stats'].update(r.get('stats', {}))
            agg['outcomes'][r.get('outcome', '?')] += 1
            agg['classes'][chk.class_name(cfg)] += 1
            d = int(r['digest'][:16], 16)
            agg['digests'].add(d)
            if r.get('nontrivial'):
                agg['nontrivial'].add(d)
            for s in r.get('states', ()):
                agg['states'].add(s)
            if r.get('harness_error'):
                agg['harness'].append({'index': i, 'cfg': cfg, 'error': r['harness_error']})
            for v in r['violations']:
                cur = agg['violations'].get(v['signature'])
                if cur is None or len(r['tape']) < len(cur['tape']):
                    agg['violations'][v['signature']] = {
                        'signature': v['signature'], 'detail': v['detail'], 'index': i,
                        'cfg': cfg, 'tape': r['tape'], 'count': (cur['count'] if cur else 0) + 1}
                else:
                    cur['count'] += 1
            if selftest_every and (i % selftest_every == 0) and not poisoned:
                # determinism: replaying the recorded tape must give the same event log
                r2 = chk.run_one(cfg, Tape(recorded=r['tape']))
                agg['determinism_checked'] += 1
                if r2['digest'] != r['digest'] or r2['tape'] != r['tape']:
                    agg['harness'].append({'index': i, 'cfg': cfg,
                                           'error': 'determinism: replay of the recorded tape '
                                                    'diverged from the seeded run'})
            if len(agg['samples']) < 2 and r.get('nontrivial') and hasattr(chk, 'sample_of') \
                    and not poisoned:
                try:
                    agg['samples'].append(chk.sample_of(cfg, r))
                except Exception:
                    pass
        agg['stats'] = dict(agg['stats'])
        agg['outcomes'] = dict(agg['outcomes'])
        agg['classes'] = dict(agg['classes'])
        return agg
    finally:
        faulthandler.cancel_dump_traceback_later()


def _digest_list(chk, base, start, count, tier):
    out = []
    for i in range(start, start + count):
        cfg = chk.config_for(i, tier)
        r, poisoned = guarded_run(chk, cfg, Tape(seed=seed_of(base, i)),
                                  chk.budget(tier).get('run_timeout', 30))
        viol = [[v['signature'], v['detail'], r['tape']] for v in r['violations']]
        out.append([r['digest'], viol])
        if poisoned:
            break
    return out


# ---------------------------------------------------------------- main side
def _start_coverage():
    """Developer aid (bin/reach): line coverage of the code under test inside the forked
    workers.  Off unless VERIF_COVERAGE names a directory; uses sys.monitoring so that it
    does not collide with the line-level pre-emption tracer."""
    d = os.environ.get('VERIF_COVERAGE')
    if not d:
        return None
    os.environ.setdefault('COVERAGE_CORE', 'sysmon')
    import coverage
    cov = coverage.Coverage(data_file=os.path.join(d, 'cov'), data_suffix=True,
                            include=[os.path.join(os.environ.get('VERIF_REPO_SRC', '/repo/src'), '*')])
    cov.start()
    return cov


def _child_main(fn, arg, conn):
    cov = _start_coverage()
    try:
        res = fn(arg)
        if cov is not None:
            cov.stop()
            cov.save()
        conn.send(('ok', res))
    except BaseException:
        try:
            conn.send(('err', traceback.format_exc()[-3000:]))
        except Exception:
            pass
    finally:
        conn.close()
        sys.stdout.flush()
        os._exit(0)


def run_chunks(fn, chunks, workers, chunk_timeout, wall_limit, merge, stop_when=None):
    """One forked child per chunk (a runaway vthread dies with its child), at most
    `workers` at a time; results come back through a pipe.  Returns an error string
    or None."""
    ctx = mp.get_context('fork')
    pending = list(reversed(chunks))
    stopped_early = [False]
    live = {}
    t_end = time.time() + wall_limit
    err = None
    from multiprocessing.connection import wait as mpwait
    while (pending or live) and err is None:
        while pending and len(live) < workers:
            c = pending.pop()
            rd, wr = ctx.Pipe(duplex=False)
            pr = ctx.Process(target=_child_main, args=(fn, c, wr), daemon=True)
            pr.start()
            wr.close()
            live[rd] = (pr, c, time.time())
        ready = mpwait(list(live), timeout=1.0)
        now = time.time()
        for rd in ready:
            pr, c, t0 = live.pop(rd)
            try:
                kind, payload = rd.recv()
            except EOFError:
                kind, payload = 'err', f'worker for chunk {c[1:3]} died without a result'
            rd.close()
            pr.join(10)
            if kind == 'ok':
                merge(payload)
                if stop_when is not None and stop_when():
                    pending.clear()
                    stopped_early[0] = True
                end = c[1] + c[2]
                nxt = payload.get('next_index', end)
                if nxt < end and not stopped_early[0]:
                    pending.append((c[0], nxt, end - nxt) + tuple(c[3:]))
            else:
                err = f'worker failed on chunk {c[1:3]}: {payload}'
        for rd, (pr, c, t0) in list(live.items()):
            if now - t0 > chunk_timeout:
                err = f'worker for chunk {c[1:3]} exceeded {chunk_timeout}s (killed)'
        if now > t_end:
            err = f'wall limit {wall_limit}s exceeded'
    for rd, (pr, c, t0) in live.items():
        try:
            pr.kill()
        except Exception:
            pass
    return err


def load_known():
    path = os.path.join(VERIF, 'known_findings.json')
    if not os.path.exists(path):
        return []
    with open(path) as fh:
        return json.load(fh).get('findings', [])


def match_known(known, prop, signature):
    for k in known:
        if k.get('property') == prop and k.get('status') == 'open' and \
                signature == k.get('signature'):
            return k
    return None


def write_replay(chk, cfg, tape_values, signature, index, base, extra=None):
    os.makedirs(os.path.join(VERIF, 'replays'), exist_ok=True)
    if str(cfg.get('hashseed', '0')) != '0' or signature.endswith('/hang'):
        decoded = {'note': 'found under another PYTHONHASHSEED; decode by replaying'}
        r = {'digest': None}
    else:
        try:
            decoded = chk.decode(cfg, tape_values)
        except Exception as e:  # documentation only
            decoded = {'error': repr(e)}
        r = chk.run_one(cfg, Tape(recorded=tape_values))
    doc = {
        'property': chk.PROP, 'seed': seed_of(base, index), 'base_seed': base, 'index': index,
        'engine_version': ENGINE_VERSION, 'config': cfg, 'tape': tape_values,
        'signature': signature, 'event_log_sha256': r['digest'], 'decoded': decoded,
    }
    if extra:
        doc.update(extra)
    h = hashlib.sha256(json.dumps([cfg, tape_values], sort_keys=True).encode()).hexdigest()[:10]
    name = f'{chk.PROP}-{signature.split("/", 1)[1].replace("/", "_")}-{h}.json'
    path = os.path.join(VERIF, 'replays', name)
    with open(path, 'w') as fh:
        json.dump(doc, fh, indent=1, default=str)
    return path


def replay_file(chk, path, quiet=False):
    with open(path) as fh:
        doc = json.load(fh)
    cfg = doc['config']
    r, _ = guarded_run(chk, cfg, Tape(recorded=doc['tape']), chk.budget('quick').get('run_timeout', 30),
                       want_trace=True)
    sigs = [v['signature'] for v in r['violations']]
    ok = doc['signature'] in sigs
    if not quiet:
        print(f'replay {path}: outcome={r.get("outcome")} digest={r["digest"][:16]} '
              f'violations={sigs}')
        for v in r['violations']:
            print(f'  {v["signature"]}: {v["detail"]}')
        if doc.get('event_log_sha256') and doc['event_log_sha256'] != r['digest']:
            print('  note: event log digest differs from the recorded one '
                  '(the code under test changed, or nondeterminism)')
    if ok:
        print(f'VIOLATION property={chk.PROP} replay={path}')
        return 1
    if r.get('harness_error'):
        print(f'HARNESS-ERROR {r["harness_error"]}')
        return 2
    return 0


def python_exe():
    return sys.executable


def run_check(chk, argv=None):
    ap = argparse.ArgumentParser()
    ap.add_argument('--tier', default=os.environ.get('VERIF_TIER', 'quick'))
    ap.add_argument('--replay')
    ap.add_argument('--runs', type=int)
    ap.add_argument('--workers', type=int, default=int(os.environ.get('VERIF_WORKERS', '16')))
    ap.add_argument('--digests', nargs=2, type=int, metavar=('START', 'COUNT'))
    ap.add_argument('--no-minimise', action='store_true')
    ap.add_argument('--no-evidence', action='store_true')
    ap.add_argument('--seed', type=int, default=int(os.environ.get('VERIF_SEED', '1')))
    args = ap.parse_args(argv)
    global _CHECK
    _CHECK = chk
    if hasattr(chk, 'prepare'):
        chk.prepare()

    if args.replay:
        return replay_file(chk, args.replay)
    if args.digests:
        print(json.dumps(_digest_list(chk, args.seed, args.digests[0], args.digests[1], args.tier)))
        return 0

    tier = args.tier
    budget = chk.budget(tier)
    runs = args.runs or budget['runs']
    base = args.seed
    t0 = time.time()
    workers = max(1, min(args.workers, os.cpu_count() or 1))
    chunk = max(1, min(budget.get('chunk', 200), runs // (workers * 4) or 1))
    chunks = []
    i = 0
    while i < runs:
        n = min(chunk, runs - i)
        chunks.append((base, i, n, tier, budget.get('selftest_every', 50),
                       budget.get('chunk_timeout', 600)))
        i += n
    total = {
        'runs': 0, 'steps': 0, 'switches': 0, 'stats': collections.Counter(),
        'outcomes': collections.Counter(), 'digests': set(), 'nontrivial': set(),
        'violations': {}, 'harness': [], 'classes': collections.Counter(),
        'determinism_checked': 0, 'samples': [], 'sim_seconds': 0.0, 'states': set(),
    }
    def merge(a):
        for key in ('runs', 'steps', 'switches', 'determinism_checked', 'sim_seconds'):
            total[key] += a[key]
        total['stats'].update(a['stats'])
        total['outcomes'].update(a['outcomes'])
        total['classes'].update(a['classes'])
        total['digests'] |= a['digests']
        total['nontrivial'] |= a['nontrivial']
        total['states'] |= a['states']
        total['harness'].extend(a['harness'])
        if len(total['samples']) < 3:
            total['samples'].extend(a['samples'][:1])
        for sig, v in a['violations'].items():
            cur = total['violations'].get(sig)
            if cur is None:
                total['violations'][sig] = v
            else:
                n = cur['count'] + v['count']
                if (len(v['tape']), v['index']) < (len(cur['tape']), cur['index']):
                    total['violations'][sig] = v
                total['violations'][sig]['count'] = n

    def too_many_hangs():
        v = total['violations'].get(f'{chk.PROP}/hang')
        return v is not None and v['count'] >= 3

    err = run_chunks(_worker_chunk, chunks, workers, budget.get('chunk_timeout', 600) + 30,
                     budget.get('wall_limit', 3600), merge, stop_when=too_many_hangs)
    if err:
        print(f'HARNESS-ERROR {err}')
        return 2

    # ---- fixed regression scenarios (one per open known finding, so that it is
    # reported on every run and not only when the random search happens to hit it)
    if hasattr(chk, 'scenarios'):
        for j, cfg in enumerate(chk.scenarios(tier)):
            try:
                r, _p = guarded_run(chk, cfg, Tape(seed=seed_of(base, 10_000_000 + j)),
                                    budget.get('run_timeout', 30))
            except Exception:
                total['harness'].append({'index': -2 - j, 'cfg': cfg,
                                         'error': traceback.format_exc()[-1500:]})
                continue
            total['runs'] += 1
            total['classes']['scenario=' + str(cfg.get('scenario'))] += 1
            for v in r['violations']:
                cur = total['violations'].get(v['signature'])
                if cur is None or len(r['tape']) < len(cur['tape']):
                    total['violations'][v['signature']] = {
                        'signature': v['signature'], 'detail': v['detail'], 'index': 10_000_000 + j,
                        'cfg': cfg, 'tape': r['tape'], 'count': (cur['count'] if cur else 0) + 1}
                else:
                    cur['count'] += 1

    # ---- cross-interpreter determinism (fresh process, other hash seeds)
    xdet = {'checked': 0, 'mismatch': 0}
    nx = budget.get('xproc_runs', 0)
    if nx and not total['harness'] and f'{chk.PROP}/hang' not in total['violations']:
        mine = _digest_list(chk, base, 0, nx, tier)
        script = os.path.join(VERIF, 'bin', 'check')
        for hs in budget.get('xproc_hashseeds', ('0', '1', str((base * 7919 + 13) % 4294967295))):
            env = dict(os.environ)
            env['PYTHONHASHSEED'] = hs
            env['VERIF_NO_REEXEC'] = '1'
            env['VERIF_SEED'] = str(base)
            try:
                out = subprocess.run(
                    [python_exe(), script, chk.PROP, '--digests', '0', str(nx), '--tier', tier],
                    env=env, capture_output=True, text=True, timeout=budget.get('xproc_timeout', 600))
                theirs = json.loads(out.stdout.strip().splitlines()[-1])
            except Exception as e:
                total['harness'].append({'index': -1, 'cfg': {'hashseed': hs},
                                         'error': f'cross-process digest run failed: {e!r}'})
                continue
            xdet['checked'] += nx
            sens = getattr(chk, 'hash_sensitive', None)
            if len(theirs) != nx or len(mine) != nx:
                total['harness'].append({'index': -1, 'cfg': {'hashseed': hs},
                                         'error': 'cross-process digest run stopped early (hang)'})
                continue
            bad = [j for j in range(nx) if mine[j][0] != theirs[j][0] and not (
                hs != '0' and sens is not None and sens(chk.config_for(j, tier)))]
            # verdicts must not depend on the hash seed either
            for j in range(nx):
                for sig, detail, tp in theirs[j][1]:
                    if sig not in total['violations']:
                        cfgj = dict(chk.config_for(j, tier))
                        cfgj['hashseed'] = hs
                        total['violations'][sig] = {'signature': sig, 'detail': detail, 'index': j,
                                                    'cfg': cfgj, 'tape': tp, 'count': 1}
            if bad:
                xdet['mismatch'] += len(bad)
                total['harness'].append({'index': bad[0], 'cfg': {'hashseed': hs},
                                         'error': f'determinism: {len(bad)} of {nx} event logs differ '
                                                  f'in a fresh interpreter with PYTHONHASHSEED={hs}'})

    # ---- violations: minimise, write replay, confirm in a fresh process
    known = load_known()
    new_violations = []
    known_hits = []
    confirm_failures = []
    for sig, v in sorted(total['violations'].items()):
        tape_values = v['tape']
        evals = 0
        if not args.no_minimise and v['cfg'].get('hashseed', '0') == '0' and not sig.endswith('/hang'):
            b = chk.budget(tier)
            tape_values, evals, ok = minimise.shrink(
                chk.run_one, v['cfg'], v['tape'], sig,
                max_evals=b.get('shrink_evals', 1500), max_seconds=b.get('shrink_seconds', 90))
        path = write_replay(chk, v['cfg'], tape_values, sig, v['index'], base,
                            extra={'found_in_runs': v['count'], 'shrink_evaluations': evals,
                                   'original_tape_length': len(v['tape'])})
        env = dict(os.environ)
        env['VERIF_NO_REEXEC'] = '1'
        env['PYTHONHASHSEED'] = str(v['cfg'].get('hashseed', '0'))
        script = os.path.join(VERIF, 'bin', 'check')
        out = subprocess.run([python_exe(), script, chk.PROP, '--replay', path], env=env,
                             capture_output=True, text=True, timeout=900)
        confirmed = out.returncode == 1 and f'VIOLATION property={chk.PROP}' in out.stdout
        if not confirmed and sig.endswith('/hang') and out.returncode == 0:
            # the run exceeded the wall-clock guard once but completes in a fresh process:
            # the machine was slow, not the code under test
            total['stats']['unconfirmed_slow_run'] += 1
            continue
        if not confirmed:
            confirm_failures.append({'signature': sig, 'replay': path, 'rc': out.returncode,
                                     'stdout': out.stdout[-800:], 'stderr': out.stderr[-800:]})
            continue
        kf = match_known(known, chk.PROP, sig)
        if kf is not None:
            known_hits.append((kf, v, path))
        else:
            new_violations.append((sig, v, path))

    wall = time.time() - t0
    rc = 0
    for kf, v, path in known_hits:
        print(f'KNOWN-FINDING: property={chk.PROP} {kf["what"]} '
              f'[signature={kf["signature"]} seen in {v["count"]} runs, replay={path}]')
    for sig, v, path in new_violations:
        print(f'  {sig}: {v["detail"]}  (seen in {v["count"]} runs)')
        print(f'VIOLATION property={chk.PROP} replay={path}')
        rc = 1
    if total['harness'] or confirm_failures:
        for h in total['harness'][:5]:
            print(f'HARNESS-ERROR index={h["index"]} cfg={h["cfg"]}: {h["error"]}')
        for c in confirm_failures:
            print(f'HARNESS-ERROR fresh-process replay did not reproduce {c["signature"]} '
                  f'({c["replay"]}); rc={c["rc"]}\n{c["stdout"]}\n{c["stderr"]}')
        if rc == 0:
            rc = 2

    if not args.no_evidence:
        ev = {
            'property_id': chk.PROP,
            'tier': tier if tier in ('quick', 'thorough') else 'quick',
            'seed': base,
            'level': chk.LEVEL,
            'coverage': {
                'evaluations': total['runs'],
                'distinct_nontrivial': len(total['nontrivial']),
                'rule': chk.RULE,
                'samples': total['samples'][:3] or ['(no sample captured)'],
                'distinct_event_logs': len(total['digests']),
                'distinct_abstract_states': len(total['states']),
                'scheduler_steps': total['steps'],
                'context_switches': total['switches'],
                'simulated_seconds': round(total['sim_seconds'], 3),
                'runs_per_hour': int(total['runs'] / wall * 3600) if wall > 0 else 0,
                'seeds': f'VERIF_SEED={base}: run i uses seed {base}*1000003+i, i in [0,{runs})',
                'run_classes': dict(total['classes']),
                'outcomes': dict(total['outcomes']),
                'fault_and_probe_counters': {k: total['stats'][k] for k in sorted(total['stats'])},
                'determinism': {
                    'same_process_tape_replays_checked': total['determinism_checked'],
                    'fresh_interpreter_digests_checked': xdet['checked'],
                    'mismatches': xdet['mismatch'],
                },
                'components': chk.COMPONENTS,
                'known_findings_seen': [kf['signature'] for kf, _, _ in known_hits],
                'workers': workers,
            },
            'assumptions': chk.ASSUMPTIONS,
            'wall_s': round(wall, 2),
            'violations': len(new_violations),
        }
        if hasattr(chk, 'evidence_extra'):
            ev['coverage'].update(chk.evidence_extra(total))
        os.makedirs(os.path.join(VERIF, 'evidence'), exist_ok=True)
        with open(os.path.join(VERIF, 'evidence', f'{chk.PROP}.json'), 'w') as fh:
            json.dump(ev, fh, indent=1, default=str)
    if hasattr(chk, 'cleanup'):
        chk.cleanup()
    print(f'{chk.PROP} {tier}: {total["runs"]} simulated runs, {len(total["digests"])} distinct event '
          f'logs, {total["steps"]} steps, {wall:.1f}s wall, rc={rc}')
    return rc
