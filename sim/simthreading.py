"""Simulated ``threading`` primitives (stub side of the seam).

``make_threading(kernel)`` returns a module-like object offering ``Lock``,
``RLock``, ``Condition``, ``get_ident`` with CPython's semantics, implemented on
the kernel: every operation is a yield point, blocking parks the vthread, and
who gets a released lock is a scheduler choice.
"""

from __future__ import annotations

import threading as _real_threading
import types


class _Waiter:
    __slots__ = ('vt', 'notified')

    def __init__(self, vt):
        self.vt = vt
        self.notified = False


def make_threading(kernel, faults=None, stats=None):
    k = kernel
    counter = [0]
    stats = stats if stats is not None else {}

    def _name(prefix):
        counter[0] += 1
        return f'{prefix}{counter[0]}'

    def _maybe_interrupt():
        # an asynchronous KeyboardInterrupt delivered to a thread that is about to block in
        # Condition.wait() (and, in simos, in lockf): both are only reached on the forward
        # acquisition path.  Plain lock acquisitions are NOT interrupted: lock.py also takes
        # them in its cleanup (finally) code, where an asynchronous exception can leave any
        # Python program inconsistent - that is not a property of lock.py.
        if faults is not None and getattr(faults, 'interrupt', None) is not None and faults.interrupt(k):
            stats['fault.interrupt'] = stats.get('fault.interrupt', 0) + 1
            k.log('fault', 'interrupt')
            raise KeyboardInterrupt()

    class SimLock:
        def __init__(self):
            self.owner = None
            self.name = _name('L')

        def acquire(self, blocking=True, timeout=-1):
            if k.inert():
                k.abort_if_killed()
                return True
            vt = k.me()
            k.yield_point('lock.acquire', self.name)
            while self.owner is not None:
                if not blocking:
                    k.log('lock.busy', self.name)
                    return False
                k.park('lock', self, lambda: self.owner is None)
            self.owner = vt
            return True

        def release(self):
            if k.inert():
                return
            if self.owner is None:
                raise RuntimeError('release unlocked lock')
            k.yield_point('lock.release', self.name)
            self.owner = None

        def locked(self):
            return self.owner is not None

        __enter__ = acquire

        def __exit__(self, *a):
            self.release()

    class SimRLock:
        def __init__(self):
            self.owner = None
            self.count = 0
            self.name = _name('R')

        def acquire(self, blocking=True, timeout=-1):
            if k.inert():
                k.abort_if_killed()
                return True
            vt = k.me()
            k.yield_point('rlock.acquire', self.name)
            if self.owner is vt:
                self.count += 1
                return True
            while self.owner is not None:
                if not blocking:
                    k.log('rlock.busy', self.name)
                    return False
                k.park('lock', self, lambda: self.owner is None)
            self.owner = vt
            self.count = 1
            return True

        def release(self):
            if k.inert():
                return
            vt = k.me()
            if self.owner is not vt:
                raise RuntimeError('cannot release un-acquired lock')
            k.yield_point('rlock.release', self.name)
            self.count -= 1
            if self.count == 0:
                self.owner = None

        __enter__ = acquire

        def __exit__(self, *a):
            self.release()

        # Condition support (CPython protocol)
        def _is_owned(self):
            return self.owner is k.me()

        def _release_save(self):
            state = (self.count, self.owner)
            self.count = 0
            self.owner = None
            return state

        def _acquire_restore(self, state):
            while self.owner is not None:
                k.park('lock', self, lambda: self.owner is None)
            self.count, self.owner = state

    class SimCondition:
        def __init__(self, lock=None):
            if lock is None:
                lock = SimRLock()
            self._lock = lock
            self.acquire = lock.acquire
            self.release = lock.release
            self.waiters = []
            self.name = _name('C')

        def __enter__(self):
            return self._lock.__enter__()

        def __exit__(self, *a):
            return self._lock.__exit__(*a)

        def _owned(self):
            lk = self._lock
            if isinstance(lk, SimRLock):
                return lk._is_owned()
            return lk.owner is k.me()

        def wait(self, timeout=None):
            if k.inert():
                k.abort_if_killed()
                return True
            if not self._owned():
                raise RuntimeError('cannot wait on un-acquired lock')
            vt = k.me()
            k.yield_point('cond.wait', self.name)
            w = _Waiter(vt)
            self.waiters.append(w)
            lk = self._lock
            if isinstance(lk, SimRLock):
                saved = lk._release_save()
            else:
                saved = None
                lk.owner = None
            if faults is not None and faults.spurious_wakeup(k):
                # a legal early return from wait()
                w.notified = True
                if w in self.waiters:
                    self.waiters.remove(w)
                stats['fault.spurious_wakeup'] = stats.get('fault.spurious_wakeup', 0) + 1
            try:
                if not w.notified:
                    try:
                        _maybe_interrupt()
                    except BaseException:
                        if w in self.waiters:
                            self.waiters.remove(w)
                        raise
                k.park('cond', self, lambda: w.notified)
            finally:
                if not k.inert():
                    if isinstance(lk, SimRLock):
                        lk._acquire_restore(saved)
                    else:
                        while lk.owner is not None:
                            k.park('lock', lk, lambda: lk.owner is None)
                        lk.owner = vt
            return True

        def wait_for(self, predicate, timeout=None):
            result = predicate()
            while not result:
                self.wait()
                result = predicate()
            return result

        def notify(self, n=1):
            if k.inert():
                return
            if not self._owned():
                raise RuntimeError('cannot notify on un-acquired lock')
            k.yield_point('cond.notify', self.name)
            for w in self.waiters[:n]:
                w.notified = True
            del self.waiters[:n]

        def notify_all(self):
            self.notify(len(self.waiters))

    def get_ident():
        vt = k.me()
        if vt is None:
            return _real_threading.get_ident()
        return vt.tid

    mod = types.ModuleType('threading')
    mod.Lock = SimLock
    mod.RLock = SimRLock
    mod.Condition = SimCondition
    mod.get_ident = get_ident
    mod.SimLock = SimLock
    mod.SimRLock = SimRLock
    mod.SimCondition = SimCondition
    # everything else from the real module (not used by lock.py)
    for name in ('Thread', 'current_thread', 'main_thread', 'local', 'Event', 'Semaphore',
                 'Barrier', 'Timer', 'active_count', 'enumerate'):
        setattr(mod, name, getattr(_real_threading, name))
    return mod
