"""Choice-sequence shrinking of a failing tape.

A candidate tape is kept when a fresh execution reports the same violation
signature (and no harness error).  Passes: cut the tail, delete blocks, zero
blocks, lower single values.  0 is the simplest choice everywhere (see tape.py),
so the result is a short tape with few non-zero draws: few threads, few requests,
no unnecessary faults and as few pre-emptions as the violation needs.
"""

from __future__ import annotations

import time

from .tape import Tape


def shrink(run_fn, cfg, values, signature, max_evals=2000, max_seconds=120):
    t0 = time.time()
    evals = [0]
    best = list(values)

    def fails(cand):
        if evals[0] >= max_evals or time.time() - t0 > max_seconds:
            return None
        evals[0] += 1
        try:
            r = run_fn(cfg, Tape(recorded=cand))
        except Exception:
            return None
        if r.get('harness_error'):
            return None
        if any(v['signature'] == signature for v in r['violations']):
            # normalise to what was actually consumed
            return list(r['tape'])
        return None

    r0 = fails(best)
    if r0 is None:
        return best, evals[0], False
    best = r0

    def strip(v):
        while v and v[-1] == 0:
            v = v[:-1]
        return v

    def better(a, b):
        return (len(a), a) < (len(b), b)

    best = strip(best)
    improved = True
    while improved and evals[0] < max_evals and time.time() - t0 <= max_seconds:
        improved = False
        # 1. cut the tail
        lo, hi = 0, len(best)
        while lo < hi:
            mid = (lo + hi) // 2
            r = fails(best[:mid])
            if r is not None:
                cand = strip(r)
                if better(cand, best):
                    best = cand
                    improved = True
                hi = min(mid, len(best))
            else:
                lo = mid + 1
        # 2. delete blocks
        for size in (16, 8, 4, 2, 1):
            i = 0
            while i + size <= len(best):
                cand = best[:i] + best[i + size:]
                r = fails(cand)
                if r is not None and better(strip(r), best):
                    best = strip(r)
                    improved = True
                else:
                    i += size
                if evals[0] >= max_evals:
                    break
        # 3. zero blocks
        for size in (8, 4, 2, 1):
            i = 0
            while i + size <= len(best):
                if any(best[i:i + size]):
                    cand = best[:i] + [0] * size + best[i + size:]
                    r = fails(cand)
                    if r is not None and better(strip(r), best):
                        best = strip(r)
                        improved = True
                i += size
                if evals[0] >= max_evals:
                    break
        # 4. lower single values
        for i in range(len(best)):
            if i >= len(best):
                break
            v = best[i]
            for nv in (v // 2, v - 1):
                if 0 <= nv < v:
                    cand = best[:i] + [nv] + best[i + 1:]
                    r = fails(cand)
                    if r is not None and better(strip(r), best):
                        best = strip(r)
                        improved = True
                        break
            if evals[0] >= max_evals:
                break
    return best, evals[0], True
