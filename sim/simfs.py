"""File-system interposer: journal, yield points, fault points.

Everything under one *simulated root* (a tmpfs directory) that mutates the file
system goes through here: ``open`` for writing (the returned object is CPython's
real TextIOWrapper/BufferedWriter stack on top of a ``SimRawIO`` whose ``write``
is the syscall seam), ``os.mkdir/open(O_CREAT)/unlink/remove/rename/replace/
symlink/rmdir/truncate``.  Each such operation

1. is a *fault point*: the installed fault plan may raise an ``OSError`` instead,
   or declare the calling virtual process dead (with a torn prefix if the
   operation is a write);
2. is a *yield point* of sim.kernel when called from a vthread;
3. is appended to the *journal* (with its data), so that the directory state
   after any prefix of operations can be rebuilt (``replay_prefix``) - "process
   death between any two file-system operations" for every prefix, at the cost of
   one execution.

Reads (open for reading, listdir/scandir) are yield points only; directory
listings are returned sorted and then permuted by the tape.  An audit hook
reports mutations under the root that did not come through the interposer
(harness error, never a verdict).
"""

from __future__ import annotations

import builtins
import errno
import io
import os
import shutil
import sys

_orig = {
    'open': builtins.open, 'io_open': io.open, 'os_open': os.open, 'mkdir': os.mkdir,
    'unlink': os.unlink, 'remove': os.remove, 'rename': os.rename, 'replace': os.replace,
    'symlink': os.symlink, 'rmdir': os.rmdir, 'truncate': os.truncate, 'listdir': os.listdir,
    'scandir': os.scandir, 'utime': os.utime, 'chmod': os.chmod, 'link': os.link,
}

PAGE = 4096
_ACTIVE = [None]          # the installed SimFS (one per process)
_AUDIT_INSTALLED = [False]
_AUTH = [0]               # >0 while the interposer itself performs a real operation


class ProcessDied(BaseException):
    """Raised inside the dying vprocess's thread in single-threaded (journal) mode."""


def _audit(event, args):
    fs = _ACTIVE[0]
    if fs is None or _AUTH[0] or not fs.monitor:
        return
    try:
        if event == 'open':
            path, mode, flags = args
            if isinstance(path, (str, bytes, os.PathLike)) and flags is not None and \
                    (flags & (os.O_WRONLY | os.O_RDWR | os.O_CREAT | os.O_TRUNC | os.O_APPEND)):
                p = os.fspath(path)
                if isinstance(p, bytes):
                    p = p.decode()
                if fs.under_root(p) and not fs.is_lockfile(p):
                    fs.bypass.append((event, p))
        elif event in ('os.mkdir', 'os.remove', 'os.rmdir', 'os.symlink', 'os.rename',
                       'os.truncate', 'os.link'):
            p = args[0] if event != 'os.symlink' else args[1]
            p = os.fspath(p)
            if isinstance(p, bytes):
                p = p.decode()
            if fs.under_root(p):
                fs.bypass.append((event, p))
    except Exception:
        pass


class SimRawIO(io.RawIOBase):
    """Raw file whose write() is the interposed write(2)."""

    def __init__(self, fs, path, real_fd, append, readable=False):
        super().__init__()
        self.fs = fs
        fs.next_fid += 1
        self.fid = fs.next_fid          # identity of the open file (survives renames)
        self.path = path
        self.fd = real_fd
        self.append = append
        self._readable = readable
        self.name = path
        self.mode = 'ab' if append else 'wb'

    def writable(self):
        return True

    def readable(self):
        return self._readable

    def seekable(self):
        return True

    def seek(self, offset, whence=0):
        return os.lseek(self.fd, offset, whence)

    def tell(self):
        return os.lseek(self.fd, 0, 1)

    def truncate(self, size=None):
        if size is None:
            size = self.tell()
        self.fs.op_truncate_fd(self, size)
        return size

    def readinto(self, b):
        data = os.read(self.fd, len(b))
        b[:len(data)] = data
        return len(data)

    def write(self, b):
        data = bytes(b)
        if not data:
            return 0
        return self.fs.op_write(self, data)

    def fileno(self):
        raise io.UnsupportedOperation('fileno (simulated file)')

    def isatty(self):
        return False

    def close(self):
        if not self.closed:
            if self.fs.lock_close_hook is not None and self.fs.is_lockfile(self.path):
                # POSIX: closing ANY descriptor of a file drops the process's record locks on it
                self.fs.lock_close_hook(self.fs.pid_of(), self.path)
            try:
                super().close()
            finally:
                _AUTH[0] += 1
                try:
                    os.close(self.fd)
                finally:
                    _AUTH[0] -= 1


class SimFS:
    def __init__(self, root, kernel=None, tape=None, faults=None, stats=None, monitor=True,
                 pid_of=None):
        self.root = os.path.realpath(root)
        self.k = kernel
        self.tape = tape
        self.faults = faults          # object with .fs_op(fs, opindex, kind, path, nbytes) -> action
        self.stats = stats if stats is not None else {}
        self.journal = []             # list of op tuples
        self.monitor = monitor
        self.bypass = []
        self.pid_of = pid_of or (lambda: 1)
        self.dead_pids = set()
        self.nops = 0
        self.next_fid = 0
        self.reads = 0
        self.op_log = []              # (index, pid, kind, relpath) for traces

    # ------------------------------------------------------------ helpers
    def under_root(self, p):
        try:
            ap = os.path.abspath(p)
        except Exception:
            return False
        return ap == self.root or ap.startswith(self.root + os.sep)

    def is_lockfile(self, p):
        return p.endswith('.lock')

    def rel(self, p):
        return os.path.relpath(os.path.abspath(p), self.root)

    def _count(self, key):
        self.stats[key] = self.stats.get(key, 0) + 1

    def _before(self, kind, path, nbytes=0):
        """Fault point + yield point before a mutating operation.  Returns an action:
        None (do it), ('torn', n) (apply n bytes then die)."""
        if self.k is not None:
            if self.k.inert():
                self.k.abort_if_killed()
            else:
                self.k.yield_point('fs.' + kind, self.rel(path))
        pid = self.pid_of()
        if pid in self.dead_pids:
            raise ProcessDied()
        idx = self.nops
        self.nops += 1
        self.op_log.append((idx, pid, kind, self.rel(path)))
        if self.faults is not None:
            act = self.faults.fs_op(self, idx, pid, kind, path, nbytes)
            if act is not None:
                if act[0] == 'oserror':
                    self._count(f'fault.fs.{errno.errorcode.get(act[1], act[1])}')
                    raise OSError(act[1], os.strerror(act[1]), path)
                if act[0] == 'raise':
                    # an exception that is not an OSError, raised "between two file-system
                    # operations" (by the code that runs just before this one)
                    self._count(f'fault.exception.{act[1].__name__}')
                    raise act[1]('injected between two file-system operations')
                if act[0] == 'die':
                    self._count('fault.death')
                    self.die(pid)
                if act[0] in ('torn', 'short'):
                    return act
        return None

    def die(self, pid):
        """Declare the calling vprocess dead.  Never returns."""
        self.dead_pids.add(pid)
        if self.on_death is not None:
            self.on_death(pid)
        if self.k is not None:
            from .kernel import SimAbort
            raise SimAbort()
        raise ProcessDied()

    on_death = None
    lock_close_hook = None

    quiet_reads = 0      # >0: reads are not yield points (inside an atomic parse)

    def _before_read(self, kind, path):
        self.reads += 1
        if self.k is not None and not self.quiet_reads:
            if self.k.inert():
                self.k.abort_if_killed()
            else:
                self.k.yield_point('fs.' + kind, self.rel(path))
        if self.pid_of() in self.dead_pids:
            raise ProcessDied()

    # ------------------------------------------------------------ operations
    def sim_open(self, file, mode='r', buffering=-1, encoding=None, errors=None, newline=None,
                 closefd=True, opener=None):
        if isinstance(file, int) or opener is not None:
            return _orig['open'](file, mode, buffering, encoding, errors, newline, closefd, opener)
        path = os.fspath(file)
        if isinstance(path, bytes) or not self.under_root(path):
            return _orig['open'](file, mode, buffering, encoding, errors, newline, closefd, opener)
        path = os.path.abspath(path)
        writing = any(c in mode for c in 'wax+')
        if not writing:
            self._before_read('open.r', path)
            return _orig['open'](path, mode, buffering, encoding, errors, newline, closefd)
        binary = 'b' in mode
        if 'x' in mode:
            flags = os.O_CREAT | os.O_EXCL | os.O_WRONLY
            kind = 'creat.x'
        elif 'w' in mode:
            flags = os.O_CREAT | os.O_TRUNC | os.O_WRONLY
            kind = 'creat.w'
        elif 'a' in mode:
            flags = os.O_CREAT | os.O_APPEND | os.O_WRONLY
            kind = 'open.a'
        else:   # r+
            flags = os.O_RDWR
            kind = 'open.r+'
        plus = '+' in mode
        if plus and 'r' not in mode:
            flags = (flags & ~os.O_WRONLY) | os.O_RDWR
        self._before(kind, path)
        _AUTH[0] += 1
        try:
            fd = _orig['os_open'](path, flags, 0o666)
        finally:
            _AUTH[0] -= 1
        raw = SimRawIO(self, path, fd, append='a' in mode, readable=plus)
        self.journal.append((kind, self.rel(path), raw.fid))
        if buffering == 0:
            if not binary:
                raise ValueError("can't have unbuffered text I/O")
            return raw
        bufsize = io.DEFAULT_BUFFER_SIZE if buffering in (-1, 1) else buffering
        buf = io.BufferedRandom(raw, bufsize) if plus else io.BufferedWriter(raw, bufsize)
        if binary:
            return buf
        text = io.TextIOWrapper(buf, encoding, errors, newline, line_buffering=(buffering == 1))
        text.mode = mode
        return text

    def op_write(self, raw, data):
        if getattr(raw, 'sticky_errno', None) is not None:
            # the device keeps failing for this descriptor (disk full, I/O error): the retry
            # that close() makes when it flushes must not silently complete the file
            raise OSError(raw.sticky_errno, os.strerror(raw.sticky_errno), raw.path)
        try:
            act = self._before('write', raw.path, len(data))
        except OSError as e:
            if e.errno in (errno.ENOSPC, errno.EIO):
                raw.sticky_errno = e.errno
            raise
        _AUTH[0] += 1
        try:
            if raw.append:
                off = os.lseek(raw.fd, 0, 2)
            else:
                off = os.lseek(raw.fd, 0, 1)
            if act is not None and act[0] == 'torn':
                n = act[1]
                os.write(raw.fd, data[:n])
                self.journal.append(('write', self.rel(raw.path), off, data[:n], raw.fid))
                self._count('fault.torn_write')
                pid = self.pid_of()
                _AUTH[0] -= 1
                try:
                    self.die(pid)
                finally:
                    _AUTH[0] += 1
            if act is not None and act[0] == 'short':
                data = data[:act[1]]          # short write (disk filling up)
                self._count('fault.short_write')
            n = os.write(raw.fd, data)
        finally:
            _AUTH[0] -= 1
        self.journal.append(('write', self.rel(raw.path), off, data[:n], raw.fid))
        return n

    def op_truncate_fd(self, raw, size):
        self._before('truncate', raw.path)
        _AUTH[0] += 1
        try:
            os.ftruncate(raw.fd, size)
        finally:
            _AUTH[0] -= 1
        self.journal.append(('truncate', self.rel(raw.path), size, raw.fid))

    def _simple(self, name, kind, jargs, path, *args, **kw):
        self._before(kind, path)
        _AUTH[0] += 1
        try:
            res = _orig[name](*args, **kw)
        finally:
            _AUTH[0] -= 1
        self.journal.append((kind,) + jargs)
        return res

    def sim_mkdir(self, path, mode=0o777, *, dir_fd=None):
        p = os.fspath(path)
        if dir_fd is not None or isinstance(p, bytes) or not self.under_root(p):
            return _orig['mkdir'](path, mode, dir_fd=dir_fd)
        return self._simple('mkdir', 'mkdir', (self.rel(p),), p, p, mode)

    def sim_os_open(self, path, flags, mode=0o777, *, dir_fd=None):
        p = os.fspath(path)
        if dir_fd is not None or isinstance(p, bytes) or not self.under_root(p):
            return _orig['os_open'](path, flags, mode, dir_fd=dir_fd)
        if not (flags & (os.O_WRONLY | os.O_RDWR | os.O_CREAT | os.O_TRUNC | os.O_APPEND)) or (
                self.is_lockfile(p) and not (flags & (os.O_CREAT | os.O_TRUNC))):
            # read-only open, or lock.py opening an existing lock file O_RDWR (never written)
            self._before_read('os.open.r', p)
            _AUTH[0] += 1
            try:
                return _orig['os_open'](p, flags, mode)
            finally:
                _AUTH[0] -= 1
        # used by Path.touch(): O_CREAT|O_WRONLY[|O_EXCL]; the fd is only closed afterwards
        kind = 'creat.x' if flags & os.O_EXCL else ('creat.w' if flags & os.O_TRUNC else 'creat')
        fd = self._simple('os_open', kind, (self.rel(p),), p, p, flags, mode)
        if self.lock_close_hook is not None and self.is_lockfile(p):
            # Path.touch(): os.open(O_CREAT) immediately followed by os.close(fd) - and closing
            # ANY descriptor of a file drops the record locks the process holds on it (POSIX)
            self.lock_close_hook(self.pid_of(), p)
        return fd

    def sim_unlink(self, path, *, dir_fd=None):
        p = os.fspath(path)
        if dir_fd is not None or isinstance(p, bytes) or not self.under_root(p):
            return _orig['unlink'](path, dir_fd=dir_fd)
        return self._simple('unlink', 'unlink', (self.rel(p),), p, p)

    def sim_rename(self, src, dst, *, src_dir_fd=None, dst_dir_fd=None):
        s, d = os.fspath(src), os.fspath(dst)
        if src_dir_fd is not None or dst_dir_fd is not None or not (self.under_root(s) or self.under_root(d)):
            return _orig['rename'](src, dst, src_dir_fd=src_dir_fd, dst_dir_fd=dst_dir_fd)
        return self._simple('rename', 'rename', (self.rel(s), self.rel(d)), d, s, d)

    def sim_replace(self, src, dst, *, src_dir_fd=None, dst_dir_fd=None):
        s, d = os.fspath(src), os.fspath(dst)
        if src_dir_fd is not None or dst_dir_fd is not None or not (self.under_root(s) or self.under_root(d)):
            return _orig['replace'](src, dst, src_dir_fd=src_dir_fd, dst_dir_fd=dst_dir_fd)
        return self._simple('replace', 'rename', (self.rel(s), self.rel(d)), d, s, d)

    def sim_symlink(self, src, dst, target_is_directory=False, *, dir_fd=None):
        d = os.fspath(dst)
        if dir_fd is not None or isinstance(d, bytes) or not self.under_root(d):
            return _orig['symlink'](src, dst, target_is_directory, dir_fd=dir_fd)
        return self._simple('symlink', 'symlink', (os.fspath(src), self.rel(d)), d,
                            src, d, target_is_directory)

    def sim_rmdir(self, path, *, dir_fd=None):
        p = os.fspath(path)
        if dir_fd is not None or isinstance(p, bytes) or not self.under_root(p):
            return _orig['rmdir'](path, dir_fd=dir_fd)
        return self._simple('rmdir', 'rmdir', (self.rel(p),), p, p)

    def sim_truncate(self, path, length):
        if isinstance(path, int) or not self.under_root(os.fspath(path)):
            return _orig['truncate'](path, length)
        p = os.fspath(path)
        return self._simple('truncate', 'truncate', (self.rel(p), length), p, p, length)

    def sim_listdir(self, path='.'):
        if isinstance(path, int):
            return _orig['listdir'](path)
        p = os.fspath(path)
        if isinstance(p, bytes) or not self.under_root(p):
            return _orig['listdir'](path)
        self._before_read('listdir', p)
        names = sorted(_orig['listdir'](p))
        if self.tape is not None and len(names) > 1:
            perm = self.tape.permutation(len(names), 'listdir')
            names = [names[i] for i in perm]
            self._count('env.listing_permuted')
        return names

    # ------------------------------------------------------------ install
    def install(self):
        if _ACTIVE[0] is not None:
            raise RuntimeError('a SimFS is already installed')
        _ACTIVE[0] = self
        if not _AUDIT_INSTALLED[0]:
            sys.addaudithook(_audit)
            _AUDIT_INSTALLED[0] = True
        builtins.open = self.sim_open
        io.open = self.sim_open
        os.open = self.sim_os_open
        os.mkdir = self.sim_mkdir
        os.unlink = self.sim_unlink
        os.remove = self.sim_unlink
        os.rename = self.sim_rename
        os.replace = self.sim_replace
        os.symlink = self.sim_symlink
        os.rmdir = self.sim_rmdir
        os.truncate = self.sim_truncate
        os.listdir = self.sim_listdir
        self._saved_sendfile = getattr(shutil, '_USE_CP_SENDFILE', None)
        if self._saved_sendfile is not None:
            shutil._USE_CP_SENDFILE = False
        return self

    def uninstall(self):
        builtins.open = _orig['open']
        io.open = _orig['io_open']
        os.open = _orig['os_open']
        os.mkdir = _orig['mkdir']
        os.unlink = _orig['unlink']
        os.remove = _orig['remove']
        os.rename = _orig['rename']
        os.replace = _orig['replace']
        os.symlink = _orig['symlink']
        os.rmdir = _orig['rmdir']
        os.truncate = _orig['truncate']
        os.listdir = _orig['listdir']
        if self._saved_sendfile is not None:
            shutil._USE_CP_SENDFILE = self._saved_sendfile
        _ACTIVE[0] = None

    def __enter__(self):
        return self.install()

    def __exit__(self, *a):
        self.uninstall()
        return False


# ---------------------------------------------------------------- journal replay
def wipe(root):
    """Remove everything under root (not root itself), with the real functions."""
    for name in _orig['listdir'](root):
        p = os.path.join(root, name)
        if os.path.islink(p) or not os.path.isdir(p):
            _orig['unlink'](p)
        else:
            shutil.rmtree(p)


def apply_op(root, op, fids=None):
    """Apply one journalled operation.  `fids` maps the identity of files opened for
    writing to their *current* relative path (None once unlinked), so that a write
    issued after a rename lands in the renamed file, as it does on a real file system."""
    kind = op[0]
    if fids is None:
        fids = {}

    def retarget(old, new):
        for f, p_ in fids.items():
            if p_ == old:
                fids[f] = new

    if kind == 'mkdir':
        _orig['mkdir'](os.path.join(root, op[1]))
    elif kind in ('creat', 'creat.x', 'creat.w', 'open.a', 'open.r+'):
        p = os.path.join(root, op[1])
        flags = {'creat': os.O_CREAT | os.O_WRONLY, 'creat.x': os.O_CREAT | os.O_WRONLY,
                 'creat.w': os.O_CREAT | os.O_TRUNC | os.O_WRONLY,
                 'open.a': os.O_CREAT | os.O_WRONLY, 'open.r+': os.O_RDWR}[kind]
        fd = _orig['os_open'](p, flags, 0o666)
        os.close(fd)
        if len(op) > 2 and isinstance(op[2], int):
            fids[op[2]] = op[1]
    elif kind == 'write':
        rel = op[1]
        if len(op) > 4 and op[4] in fids:
            rel = fids[op[4]]
        if rel is None:
            return          # the file was unlinked: the data goes nowhere
        p = os.path.join(root, rel)
        fd = _orig['os_open'](p, os.O_WRONLY)
        try:
            os.lseek(fd, op[2], 0)
            os.write(fd, op[3])
        finally:
            os.close(fd)
    elif kind == 'truncate':
        rel = op[1]
        if len(op) > 3 and op[3] in fids:
            rel = fids[op[3]]
        if rel is not None:
            _orig['truncate'](os.path.join(root, rel), op[2])
    elif kind == 'unlink':
        _orig['unlink'](os.path.join(root, op[1]))
        retarget(op[1], None)
    elif kind == 'rename':
        retarget(op[2], None)            # an open file that is replaced loses its name
        _orig['replace'](os.path.join(root, op[1]), os.path.join(root, op[2]))
        retarget(op[1], op[2])
    elif kind == 'symlink':
        _orig['symlink'](op[1], os.path.join(root, op[2]))
    elif kind == 'rmdir':
        _orig['rmdir'](os.path.join(root, op[1]))
    else:  # pragma: no cover
        raise ValueError(f'unknown journal op {kind}')


def replay_prefix(root, journal, k, torn=None):
    """Rebuild `root` as it is after the first k journal operations; with torn=n the
    k-th operation (a write) is applied with only its first n bytes."""
    wipe(root)
    fids = {}
    for op in journal[:k]:
        apply_op(root, op, fids)
    if torn is not None:
        op = journal[k]
        assert op[0] == 'write'
        apply_op(root, ('write', op[1], op[2], op[3][:torn]) + tuple(op[4:]), fids)


def tree_digest(root):
    """Digest of the directory tree (names, link targets, file contents; the root
    path itself is normalised away)."""
    import hashlib
    h = hashlib.sha256()
    rootb = root.encode()
    for dirpath, dirnames, filenames in os.walk(root):
        dirnames.sort()
        rel = os.path.relpath(dirpath, root)
        h.update(b'D' + rel.encode())
        for d in list(dirnames):
            p = os.path.join(dirpath, d)
            if os.path.islink(p):
                h.update(b'L' + d.encode() + os.readlink(p).encode())
        for f in sorted(filenames):
            p = os.path.join(dirpath, f)
            if os.path.islink(p):
                h.update(b'L' + f.encode() + os.readlink(p).encode())
            else:
                with _orig['open'](p, 'rb') as fh:
                    h.update(b'F' + f.encode() +
                             hashlib.sha256(fh.read().replace(rootb, b'<ROOT>')).digest())
    return h.hexdigest()
