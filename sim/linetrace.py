"""Line-level pre-emption points for selected source files through sys.monitoring
(Python >= 3.12): LINE events are switched on for the code objects of those files only, so
code outside them runs at full speed (sys.settrace calls its global hook for every function
call of the traced thread, which makes pharmpy's symbolic code ten times slower)."""

from __future__ import annotations

import sys
import types

TOOL_ID = 4


def code_objects_of(module):
    """All code objects defined in the module's file: functions, methods, nested ones."""
    fname = module.__file__
    seen = {}

    def walk(code):
        if code.co_filename != fname or id(code) in seen:
            return
        seen[id(code)] = code
        for c in code.co_consts:
            if isinstance(c, types.CodeType):
                walk(c)

    def visit(obj, depth=0):
        if isinstance(obj, (types.FunctionType, types.MethodType)):
            f = getattr(obj, '__func__', obj)
            walk(f.__code__)
            w = getattr(f, '__wrapped__', None)
            if w is not None and depth < 3:
                visit(w, depth + 1)
        elif isinstance(obj, (staticmethod, classmethod)):
            visit(obj.__func__, depth)
        elif isinstance(obj, property):
            for f in (obj.fget, obj.fset, obj.fdel):
                if f is not None:
                    visit(f, depth)
        elif isinstance(obj, type) and depth < 2 and getattr(obj, '__module__', None) == module.__name__:
            for v in vars(obj).values():
                visit(v, depth + 1)

    for v in vars(module).values():
        visit(v)
    return list(seen.values())


class LinePreemption:
    """with LinePreemption(codes, callback): callback(lineno) runs before every line of the
    given code objects, in whatever thread executes it."""

    def __init__(self, codes, callback):
        self.codes = codes
        self.callback = callback

    def __enter__(self):
        mon = sys.monitoring
        mon.use_tool_id(TOOL_ID, 'verif-line-preemption')
        cb = self.callback

        def on_line(code, lineno):
            cb(lineno)
        mon.register_callback(TOOL_ID, mon.events.LINE, on_line)
        for c in self.codes:
            mon.set_local_events(TOOL_ID, c, mon.events.LINE)
        return self

    def __exit__(self, *a):
        mon = sys.monitoring
        for c in self.codes:
            mon.set_local_events(TOOL_ID, c, 0)
        mon.register_callback(TOOL_ID, mon.events.LINE, None)
        mon.free_tool_id(TOOL_ID)
        return False
