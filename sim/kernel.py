"""Virtual threads and the seeded scheduler.

Each virtual thread (vthread) is a real ``threading.Thread`` that only runs while
it holds the baton: exactly one vthread executes at any time and *which one runs
next is always decided here*, from the choice tape.  A vthread hands the baton
over at every yield point (``Kernel.yield_point``) and when it parks
(``Kernel.park``): blocking is modelled (a parked vthread has a predicate that
says when it may continue), never executed.

The baton is handed over directly from the yielding vthread to the chosen one
(one OS context switch per simulated switch, none when the same vthread
continues).  Real synchronisation uses ``_thread.allocate_lock`` objects only,
so the fake ``threading`` module given to the code under test never gets in the
way.
"""

from __future__ import annotations

import _thread
import hashlib
import sys
import threading

RUN, BLOCKED, DONE = 'run', 'blocked', 'done'


class SimAbort(BaseException):
    """Unwinds a vthread (end of run, process death).  Never caught by workloads."""


def _install_unraisable_filter():
    """Generators of unwound vthreads are finalised by the garbage collector; their
    ``finally`` blocks call inert primitives which raise SimAbort again.  That is
    harmless ("Exception ignored in ...") - keep it off stderr."""
    prev = sys.unraisablehook

    def hook(unraisable):
        if isinstance(unraisable.exc_value, SimAbort):
            return
        prev(unraisable)

    if getattr(sys.unraisablehook, '__name__', '') != 'hook':
        sys.unraisablehook = hook


_install_unraisable_filter()


class HarnessError(Exception):
    """Something is wrong with the simulation itself (never a verdict)."""


class VThread:
    __slots__ = (
        'name', 'pid', 'tid', 'fn', 'state', 'blocked_kind', 'blocked_obj', 'pred', 'sem',
        'done_lock', 'real', 'killed', 'exc', 'prio', 'index', 'data', 'nsteps',
    )

    def __init__(self, name, pid, tid, fn, index):
        self.name = name
        self.pid = pid
        self.tid = tid
        self.fn = fn
        self.index = index
        self.state = RUN
        self.blocked_kind = None
        self.blocked_obj = None
        self.pred = None
        self.sem = _thread.allocate_lock()
        self.sem.acquire()
        self.done_lock = _thread.allocate_lock()
        self.done_lock.acquire()
        self.real = None
        self.killed = False
        self.exc = None
        self.prio = 0
        self.data = {}
        self.nsteps = 0

    def __repr__(self):
        return f'<vt {self.name} {self.state}>'


class Kernel:
    def __init__(self, tape, policy='random', max_steps=2000, pct_depth=1, pct_span=150,
                 trace_files=(), log_events=True):
        self.tape = tape
        self.policy = policy
        self.max_steps = max_steps
        self.threads: list[VThread] = []
        self.by_ident: dict[int, VThread] = {}
        self.current: VThread | None = None
        self.main_sem = _thread.allocate_lock()
        self.main_sem.acquire()
        self.steps = 0
        self.switches = 0
        self.stop = False          # an oracle asked to stop the run
        self.cap_hit = False
        self.on_step = None        # callable() run at every step (invariants)
        self.log_events = log_events
        self.events: list = []
        self._hash = hashlib.sha256()
        self.trace_files = frozenset(trace_files)
        self.started = False
        self.finished = False
        self.dead_pids: set = set()
        # PCT
        self.pct_depth = pct_depth
        self.pct_changes = []
        self._low = 0
        if policy == 'pct':
            self.pct_changes = sorted(
                1 + tape.draw(pct_span, 'pct.change') for _ in range(max(0, pct_depth - 1))
            )
        self._rr = 0

    # ------------------------------------------------------------------ log
    def log(self, *ev):
        """Record an event.  Never draws, never reads a clock."""
        rec = (self.steps, self.current.name if self.current is not None else '-') + ev
        self._hash.update(repr(rec).encode())
        if self.log_events:
            self.events.append(rec)

    def digest(self):
        return self._hash.hexdigest()

    # ---------------------------------------------------------------- spawn
    def spawn(self, fn, name, pid=1, tid=None):
        idx = len(self.threads)
        vt = VThread(name, pid, tid if tid is not None else 1000 * pid + idx + 1, fn, idx)
        if self.policy == 'pct':
            vt.prio = 1000 + self.tape.draw(1000, 'pct.prio') * 64 + idx
        self.threads.append(vt)
        vt.real = threading.Thread(target=self._boot, args=(vt,), name=f'vt-{name}', daemon=True)
        vt.real.start()
        # wait until the thread registered its ident
        while vt.real.ident is None:  # pragma: no cover
            pass
        self.by_ident[vt.real.ident] = vt
        return vt

    def me(self) -> VThread | None:
        return self.by_ident.get(_thread.get_ident())

    def abort_if_killed(self):
        """Called by operations that could block or loop: a vthread that is being
        unwound must not keep executing workload code."""
        vt = self.by_ident.get(_thread.get_ident())
        if vt is not None and vt.killed:
            raise SimAbort()

    def inert(self):
        """True when the caller must not interact with the simulation: it is not a
        vthread, or it is being unwound."""
        vt = self.by_ident.get(_thread.get_ident())
        return vt is None or vt.killed

    # ------------------------------------------------------------ scheduling
    def _runnable(self):
        out = []
        for t in self.threads:
            if t.killed:
                continue
            if t.state == RUN:
                out.append(t)
            elif t.state == BLOCKED and t.pred():
                out.append(t)
        return out

    def _pick(self, cur):
        cand = self._runnable()
        if not cand:
            return None
        if len(cand) == 1:
            return cand[0]
        pol = self.policy
        if pol == 'pct':
            while self.pct_changes and self.steps >= self.pct_changes[0]:
                self.pct_changes.pop(0)
                if cur is not None:
                    self._low -= 1
                    cur.prio = self._low
            return max(cand, key=lambda t: t.prio)
        if pol == 'rr':
            self._rr += 1
            start = (cur.index + 1) if cur is not None else 0
            n = len(self.threads)
            for off in range(n):
                t = self.threads[(start + off) % n]
                if t in cand:
                    return t
        cur_ok = cur is not None and cur in cand
        if pol == 'sticky' and cur_ok:
            if not self.tape.chance(1, 5, 'sched.switch'):
                return cur
            others = [t for t in cand if t is not cur]
            return others[self.tape.draw(len(others), 'sched.pick')]
        # uniform random; index 0 = stay on the current vthread
        if cur_ok:
            cand = [cur] + [t for t in cand if t is not cur]
        return cand[self.tape.draw(len(cand), 'sched.pick')]

    def _handoff(self, cur, finished=False):
        self.steps += 1
        if self.steps > self.max_steps:
            self.cap_hit = True
            self.stop = True
        if self.on_step is not None and not self.stop:
            self.on_step()
            if cur.killed and not finished:
                raise SimAbort()
        nxt = None if self.stop else self._pick(cur)
        if nxt is cur and nxt is not None:
            return
        self.switches += 1
        self.current = nxt
        if nxt is None:
            self.main_sem.release()
        else:
            nxt.sem.release()
        if not finished:
            cur.sem.acquire()
            if cur.killed:
                raise SimAbort()

    def _boot(self, vt):
        vt.sem.acquire()
        try:
            if vt.killed:
                return
            if self.trace_files:
                sys.settrace(self._tracer)
            vt.fn()
        except SimAbort:
            pass
        except BaseException as e:  # uncaught exception in a workload body
            if not vt.killed:
                vt.exc = e
        finally:
            sys.settrace(None)
            vt.state = DONE
            was_current = self.current is vt
            vt.done_lock.release()
            if was_current and not self.finished:
                self._handoff(vt, finished=True)

    # -- line-level pre-emption ------------------------------------------
    def _tracer(self, frame, event, arg):
        if frame.f_code.co_filename in self.trace_files:
            return self._local_trace
        return None

    def _local_trace(self, frame, event, arg):
        if event == 'line':
            self.yield_point('line', frame.f_lineno)
        return self._local_trace

    # ---------------------------------------------------------- vthread API
    def yield_point(self, kind, detail=None):
        vt = self.by_ident.get(_thread.get_ident())
        if vt is None or vt.killed:
            return
        if vt is not self.current:  # pragma: no cover
            raise HarnessError(f'{vt} ran without the baton')
        vt.nsteps += 1
        self.log('y', kind, detail)
        self._handoff(vt)

    def park(self, kind, obj, pred):
        """Block the calling vthread until pred() holds and the scheduler picks it."""
        vt = self.by_ident.get(_thread.get_ident())
        if vt is None or vt.killed:
            return
        vt.state = BLOCKED
        vt.blocked_kind = kind
        vt.blocked_obj = obj
        vt.pred = pred
        self.log('park', kind, getattr(obj, 'name', None))
        try:
            self._handoff(vt)
        finally:
            vt.state = RUN if vt.state == BLOCKED else vt.state
            vt.blocked_kind = None
            vt.blocked_obj = None
            vt.pred = None
        self.log('wake', kind, getattr(obj, 'name', None))

    # --------------------------------------------------------------- driver
    def run(self):
        """Run until everything finished, nothing is runnable, or a stop was asked.
        Returns 'done' | 'quiescent' | 'stopped' | 'cap'."""
        self.started = True
        first = self._pick(None)
        if first is not None:
            self.current = first
            first.sem.release()
            self.main_sem.acquire()
        self.current = None
        if self.cap_hit:
            return 'cap'
        if self.stop:
            return 'stopped'
        if all(t.state == DONE for t in self.threads):
            return 'done'
        return 'quiescent'

    def resume(self):
        """Continue after run() returned (e.g. after the driver changed the world)."""
        self.stop = False
        nxt = self._pick(None)
        if nxt is not None:
            self.current = nxt
            nxt.sem.release()
            self.main_sem.acquire()
        self.current = None
        if self.cap_hit:
            return 'cap'
        if self.stop:
            return 'stopped'
        if all(t.state == DONE for t in self.threads):
            return 'done'
        return 'quiescent'

    def kill(self, victims):
        """Unwind the given vthreads.  Callable from the main thread or from the
        current vthread.  If the caller is among the victims it is marked killed
        and must raise SimAbort itself right after."""
        me = self.me()
        for v in victims:
            if v.state == DONE or v is me:
                continue
            v.killed = True
            v.sem.release()
            if not v.done_lock.acquire(timeout=20):
                raise HarnessError(f'vthread {v.name} did not unwind within 20 s')
            v.done_lock.release()
        if me is not None and me in victims:
            me.killed = True

    def kill_process(self, pid):
        self.dead_pids.add(pid)
        self.log('death', pid)
        self.kill([t for t in self.threads if t.pid == pid])

    def shutdown(self):
        self.finished = True
        self.kill(list(self.threads))
        for t in self.threads:
            t.real.join(5)
            if t.real.is_alive():  # pragma: no cover
                raise HarnessError(f'vthread {t.name} did not unwind')
