"""The choice tape: one integer decides everything.

Every decision of a simulated run (workload shape, scheduling, fault placement,
listing permutations, uuids, clock deltas) is ``tape.draw(n)``: an int in
``[0, n)``.  In *generate* mode the values come from ``random.Random(seed)`` and
are recorded; in *replay* mode they are read back from the recorded list
(``value % n``; 0 when the list is exhausted), which makes a run a pure function
of (code, config, tape) and makes choice-sequence shrinking possible.

Convention used everywhere: **0 is the simplest choice** (no fault, stay on the
current thread, the first/smallest option), so that zeroing and deleting draws
simplifies a failing run.
"""

from __future__ import annotations

import random


class Tape:
    __slots__ = ('seed', 'rng', 'recorded', 'pos', 'out', 'labels', 'keep_labels')

    def __init__(self, seed=None, recorded=None, keep_labels=False):
        self.seed = seed
        self.recorded = None if recorded is None else list(recorded)
        self.rng = random.Random(seed) if recorded is None else None
        self.pos = 0
        self.out = []
        self.labels = [] if keep_labels else None
        self.keep_labels = keep_labels

    # -- primitive ---------------------------------------------------------
    def draw(self, n, label=None):
        """An int in [0, n).  n <= 1 consumes nothing."""
        if n <= 1:
            return 0
        if self.recorded is None:
            v = self.rng.randrange(n)
        else:
            if self.pos < len(self.recorded):
                v = self.recorded[self.pos] % n
            else:
                v = 0
        self.pos += 1
        self.out.append(v)
        if self.labels is not None:
            self.labels.append(label)
        return v

    # -- helpers (all built on draw) --------------------------------------
    def chance(self, num, den, label=None):
        """True with probability num/den; the value 0 always means False."""
        if num <= 0:
            return False
        return self.draw(den, label) >= den - num

    def choice(self, seq, label=None):
        return seq[self.draw(len(seq), label)]

    def weighted(self, pairs, label=None):
        """pairs: [(weight, value), ...]; the first pair is the 'simplest'."""
        total = sum(w for w, _ in pairs)
        v = self.draw(total, label)
        for w, val in pairs:
            if v < w:
                return val
            v -= w
        return pairs[-1][1]

    def permutation(self, n, label=None):
        """A permutation of range(n); all-zero draws give the identity."""
        items = list(range(n))
        out = []
        while items:
            out.append(items.pop(self.draw(len(items), label)))
        return out

    def randint(self, lo, hi, label=None):
        return lo + self.draw(hi - lo + 1, label)
