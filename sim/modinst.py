"""Instances of pharmpy's real ``lock.py`` bound to simulated primitives.

The *source file from the current working tree* is compiled once per process
(cached by mtime/size) and executed once per virtual process with fake
``threading``, ``fcntl`` and ``os`` modules in ``sys.modules`` for the duration of
the module body.  Nothing in the file is edited: pools, classes, context managers
are all the real code; only the primitives it imports are simulated.
"""

from __future__ import annotations

import importlib.util
import os
import sys
import types

_code_cache = {}


def repo_src():
    """Directory that holds the ``pharmpy`` package of the working tree."""
    env = os.environ.get('VERIF_REPO_SRC')
    if env:
        return env
    spec = importlib.util.find_spec('pharmpy')
    if spec is None or not spec.submodule_search_locations:
        raise RuntimeError('pharmpy is not importable')
    return os.path.dirname(list(spec.submodule_search_locations)[0])


def lock_py_path():
    return os.path.join(repo_src(), 'pharmpy', 'internals', 'fs', 'lock.py')


def _compiled(path):
    st = os.stat(path)
    key = (path, st.st_mtime_ns, st.st_size)
    code = _code_cache.get(key)
    if code is None:
        with open(path, 'rb') as fh:
            src = fh.read()
        code = compile(src, path, 'exec')
        _code_cache.clear()
        _code_cache[key] = code
    return code


def load_lock_module(fake_threading, fake_fcntl, fake_os, name='pharmpy.internals.fs.lock#sim'):
    path = lock_py_path()
    code = _compiled(path)
    mod = types.ModuleType(name)
    mod.__file__ = path
    saved = {k: sys.modules.get(k) for k in ('threading', 'fcntl', 'os')}
    sys.modules['threading'] = fake_threading
    sys.modules['fcntl'] = fake_fcntl
    sys.modules['os'] = fake_os
    try:
        exec(code, mod.__dict__)
    finally:
        for k, v in saved.items():
            if v is None:
                sys.modules.pop(k, None)
            else:
                sys.modules[k] = v
    return mod


def pools_of(mod):
    """All ThreadSafeKeyedRefPool-like objects in the module globals (found by
    shape, not by name): anything with a ``_refs`` dict."""
    out = {}
    for k, v in vars(mod).items():
        refs = getattr(v, '_refs', None)
        if isinstance(refs, dict) and not isinstance(v, type):
            out[k] = v
    return out
